---------------------------- MODULE RequestCache ----------------------------
(* ipv8/requestcache.py : RequestCache.add / pop / passthrough / _on_timeout / clear / shutdown,    *)
(* NumberCache.register_future;  ipv8/taskmanager.py : register_task / delay_runner /              *)
(* cancel_pending_task / done_cb;  ipv8/lazy_community.py : retrieve_cache (= pop + KeyError path). *)
(*                                                                                                  *)
(* Abstract layer  : st[c]  - how the request held by cache object c ended (property C10).          *)
(* Implementation  : table  - RequestCache._identifiers  ("prefix:number" -> cache),                *)
(*                   task   - the asyncio task that delay_runner/_on_timeout run for the cache,     *)
(*                   tracked- TaskManager._pending_tasks[cache] is that task,                       *)
(*                   zombie - an earlier task of the same cache object whose done callback is still *)
(*                            queued (only when an ended cache object is registered again).         *)
(*                   nC     - how often the cache object was handed to a claimant (returned by      *)
(*                            pop() / passed to a retrieve_cache handler) in this registration,     *)
(*                   hpend  - a coroutine handler matched by retrieve_cache whose body has not run. *)
(*                   shutdown - the _shutdown flag RequestCache shares with its base class          *)
(*                            TaskManager: raised by RequestCache.shutdown() *and* by the inherited *)
(*                            public TaskManager.shutdown_task_manager() (action ShutdownTM), which *)
(*                            cancels every time-out task but knows nothing of identifiers/futures; *)
(*                   rcdown - RequestCache.shutdown() has been called.  What the statement demands  *)
(*                            "after shutdown" is demanded from then on, whatever happened before   *)
(*                            (also a task-manager teardown: the requests it froze, st "stopped",   *)
(*                            are still registered and claimable; shutdown() drops them and cancels *)
(*                            their futures).                                                       *)
(* A cache may tie several futures to its request (register_future is a list append): fut[c] is the *)
(* sequence of their states in registration order; anybody may complete / cancel one of them while  *)
(* the request is outstanding (FutExt(c, j)); the time-out completes, shutdown() / a refused add()  *)
(* cancel *every* future that is still pending (Sweep).                                             *)
(*                                                                                                  *)
(* The response path (retrieve_cache): the wrapper claims the cache (pop) and only then runs the    *)
(* handler body.  The body is arbitrary overlay code: it may fail (raise) or re-enter the request   *)
(* cache (pop / another response / add of a new request, also with the identity just released).     *)
(* Whatever it does, the request was claimed when it was matched: Respond = claim ; body.           *)
(*                                                                                                  *)
(* asyncio semantics that carry the property (Task.cancel):                                         *)
(*   start  : task created, first step queued. cancel() => _must_cancel, coroutine body never runs. *)
(*   armed  : awaiting sleep().  cancel() => the sleep future is cancelled, CancelledError queued.  *)
(*   fired  : the timer callback has completed the sleep future, the wake-up of the task is queued  *)
(*            but has not run.  cancel() => _must_cancel: the wake-up throws CancelledError into    *)
(*            the coroutine, _on_timeout is NOT called.  This is the pop / expiry race.             *)
(*   dying  : cancel requested or coroutine finished; the done callback (done_cb) is still queued.  *)
(*   gone   : done callback has run.                                                                *)
(* Ready handles may run in any order here (asyncio: FIFO) - a superset of the real schedules.      *)
(* Time is kept as 'remaining ticks' per armed timer; overdue timers may fire in any order.         *)
EXTENDS Naturals, FiniteSets, Sequences, TLC

CONSTANTS NC,            \* cache objects 1..NC (registered in this order the first time)
          NI,            \* identities 1..NI : the (prefix, number) pairs
          Delays,        \* NumberCache.timeout_delay values (> 0)
          PassTimeouts,  \* timeouts given to passthrough(); 0 = "instantly"; {} = passthrough not explored
          Filters,       \* subset of {"all", "A"} : passthrough() without / with a class filter
          Nesting,       \* on_timeout callbacks may call pop / add
          ReAdds,        \* how often an ended cache *object* may be registered again
          ExtFut,        \* how many managed futures may have been completed by somebody else (while their request
                         \* was outstanding) at any one time; 0 = not explored
          ReapOwnOnly,   \* TRUE : done_cb forgets only its own task (repaired).  FALSE : pinned taskmanager.py
          LateCancel,    \* TRUE : asyncio semantics.  FALSE : (control) cancelling a fired task has no effect
          HScripts,      \* subset of {"none", "raise", "pop", "add"} : what the body of a matched handler does
          CoHandlers,    \* coroutine handlers: matched (claimed) now, body runs as a later step
          ClaimFirst,    \* TRUE : retrieve_cache pops, then calls the handler.  FALSE : (control) it peeks, calls the
                         \*        handler and pops only after the handler returned (never, when it raised)
          TMShutdown,    \* the inherited TaskManager.shutdown_task_manager() may be called on the request cache
          ShutGuard,     \* FALSE : RequestCache.shutdown() always does its work.  TRUE : (control) it returns at once
                         \*         when the _shutdown flag is already raised
          NFut,          \* at most this many (<= 3) futures are tied to a request (model checking; traces bring their own)
          FutLoop        \* "all" : every pending managed future is completed / cancelled.  "break" : (control) the
                         \*         loop over the managed futures stops at the first one that is already done

Caches == 1..NC
Idents == 1..NI
Live   == {"start", "armed", "fired"}
Ended  == {"claimed", "timedout", "cleared", "halted"}

VARIABLES ident,    \* Caches -> Idents            fixed per behaviour
          futk,     \* Caches -> Seq({"value","exc"})     the managed futures registered with the cache, in order:
                    \*                                    on time-out set_result(value) / set_exception(exc)
          cls,      \* Caches -> {"A","B"}         cache class (for passthrough filters)
          st,       \* "new" | "outstanding" | "claimed" | "timedout" | "cleared" (clear) | "halted" (shutdown)
                    \* | "stopped" (registered, time-out cancelled by shutdown_task_manager; shutdown() still due)
                    \* | "refused" (add returned None: duplicate) | "rejected" (add returned None: shut down)
          task,     \* "none" | "start" | "armed" | "fired" | "dying" | "gone"
          zombie,   \* Caches -> BOOLEAN
          tracked,  \* Caches -> BOOLEAN
          due,      \* start: delay that will be slept;  armed: ticks left;  otherwise 0
          table,    \* Idents -> Caches \cup {0}
          fut,      \* Caches -> Seq({"pending", "result", "exception", "cancelled", "ext"})
          nT,       \* on_timeout invocations of the current registration
          late,     \* history: on_timeout was invoked after shutdown
          shutdown, \* the _shutdown flag
          rcdown,   \* RequestCache.shutdown() has been called
          ovr,      \* passthrough override: [on, t, filt]
          readds,
          nC,       \* claims of the current registration
          hpend     \* Caches \cup {0} : the cache a not yet run coroutine handler body was matched with
vars == <<ident, futk, cls, st, task, zombie, tracked, due, table, fut, nT, late, shutdown, rcdown, ovr, readds, nC, hpend>>
params == <<ident, futk, cls>>

NoOvr == [on |-> FALSE, t |-> 0, filt |-> "all"]

MaxFut == 3
FutLayout   == [c \in Caches |-> IF c % 3 = 1 THEN <<"value", "exc">>
                                  ELSE IF c % 3 = 2 THEN <<"exc", "value", "value">> ELSE <<>>]
DefaultFutk == [c \in Caches |-> SubSeq(FutLayout[c], 1, IF Len(FutLayout[c]) < NFut THEN Len(FutLayout[c]) ELSE NFut)]
DefaultCls  == [c \in Caches |-> IF c % 2 = 1 THEN "A" ELSE "B"]

InitDyn == /\ st = [c \in Caches |-> "new"] /\ task = [c \in Caches |-> "none"]
           /\ zombie = [c \in Caches |-> FALSE] /\ tracked = [c \in Caches |-> FALSE]
           /\ due = [c \in Caches |-> 0] /\ table = [i \in Idents |-> 0]
           /\ fut = [c \in Caches |-> [j \in DOMAIN futk[c] |-> "pending"]]
           /\ nT = [c \in Caches |-> 0] /\ late = FALSE /\ shutdown = FALSE /\ rcdown = FALSE /\ ovr = NoOvr /\ readds = 0
           /\ nC = [c \in Caches |-> 0] /\ hpend = 0

Init == /\ ident \in [Caches -> Idents] /\ ident[1] = 1
        /\ futk = DefaultFutk /\ cls = DefaultCls
        /\ InitDyn

(* ------------------------------ the code, as functions on a state record ------------------------ *)
Cur == [st |-> st, task |-> task, tracked |-> tracked, due |-> due, table |-> table, fut |-> fut,
        nT |-> nT, late |-> late, nC |-> nC]

Apply(S) == /\ st' = S.st /\ task' = S.task /\ tracked' = S.tracked /\ due' = S.due
            /\ table' = S.table /\ fut' = S.fut /\ nT' = S.nT /\ late' = S.late /\ nC' = S.nC

(* `for future, value in cache.managed_futures: if not future.done(): ...` - the futures of cache c that are still  *)
(* pending get new[j]; the others are left alone                                                                  *)
Sweep(fs, new) == [j \in DOMAIN fs |-> IF fs[j] = "pending" /\ (FutLoop = "all" \/ \A h \in 1..(j - 1) : fs[h] = "pending")
                                       THEN new[j] ELSE fs[j]]
TimeoutVals(c) == [j \in DOMAIN futk[c] |-> IF futk[c][j] = "exc" THEN "exception" ELSE "result"]
Cancelled(c)   == [j \in DOMAIN futk[c] |-> "cancelled"]
NoPending(fs)  == \A j \in DOMAIN fs : fs[j] # "pending"

(* TaskManager.cancel_pending_task(cache) *)
CancelTask(S, c) ==
  LET hit == S.task[c] \in {"start", "armed"} \/ (S.task[c] = "fired" /\ LateCancel) IN
  IF ~S.tracked[c] THEN S
  ELSE [S EXCEPT !.tracked[c] = FALSE,
                 !.task[c] = IF hit THEN "dying" ELSE @,
                 !.due[c] = IF hit THEN 0 ELSE @]

(* RequestCache.pop(prefix, number) - also the body of a retrieve_cache handler *)
DoPop(S, i) ==
  LET c == S.table[i] IN
  IF c = 0 THEN S
  ELSE CancelTask([S EXCEPT !.table[i] = 0, !.st[c] = "claimed", !.nC[c] = @ + 1], c)

EffDelay(c, d) == IF ovr.on /\ (ovr.filt = "all" \/ cls[c] = ovr.filt) THEN ovr.t ELSE d

(* RequestCache.add(cache) *)
DoAdd(S, c, d) ==
  IF shutdown THEN [S EXCEPT !.st[c] = "rejected", !.nT[c] = 0, !.nC[c] = 0, !.fut[c] = Sweep(@, Cancelled(c))]
  ELSE IF S.table[ident[c]] # 0 THEN [S EXCEPT !.st[c] = "refused", !.nT[c] = 0, !.nC[c] = 0]
  ELSE [S EXCEPT !.st[c] = "outstanding", !.table[ident[c]] = c, !.task[c] = "start", !.tracked[c] = TRUE,
                 !.due[c] = EffDelay(c, d), !.nT[c] = 0, !.nC[c] = 0]

NextNew(S) == CHOOSE c \in Caches : S.st[c] = "new" /\ \A b \in Caches : b < c => S.st[b] # "new"
HasNew(S)  == \E c \in Caches : S.st[c] = "new"

(* what a test cache's on_timeout() does: nothing, pop(identity), or add(the next fresh cache) *)
NestKinds == {"none", "pop", "add"}
NestArgs  == {0} \cup Idents \cup Delays
NestOk(k, a) == \/ k = "none" /\ a = 0
                \/ Nesting /\ k = "pop" /\ a \in Idents
                \/ Nesting /\ k = "add" /\ a \in Delays
DoNested(S, op) == IF op[1] = "pop" THEN DoPop(S, op[2])
                   ELSE IF op[1] = "add" THEN DoAdd(S, NextNew(S), op[2])
                   ELSE S

(* RequestCache._on_timeout(cache), run as one step of the cache's task *)
DoTimeout(S, c, op) ==
  LET S1 == [S EXCEPT !.table[ident[c]] = 0,                          \* identifier removed first
                      !.st[c] = IF @ = "outstanding" THEN "timedout" ELSE @,
                      !.nT[c] = @ + 1,                                  \* cache.on_timeout()
                      !.late = @ \/ shutdown]
      S2 == DoNested(S1, op)
      S3 == [S2 EXCEPT !.fut[c] = Sweep(@, TimeoutVals(c))]
  IN [S3 EXCEPT !.tracked[c] = FALSE, !.task[c] = "dying", !.due[c] = 0]  \* cancel_pending_task(cache); task ends

(* what the body of a test handler does: nothing, fail, pop(identity) (directly or as a re-entrant response), or   *)
(* add(the next fresh cache)                                                                                     *)
HKinds    == {"none", "raise", "pop", "add"}
HOk(k, a) == /\ k \in HScripts
             /\ \/ k \in {"none", "raise"} /\ a = 0
                \/ Nesting /\ k = "pop" /\ a \in Idents
                \/ Nesting /\ k = "add" /\ a \in Delays

(* (control only) the entry leaves the table without anybody claiming it *)
DoUnlist(S, i) ==
  LET c == S.table[i] IN
  IF c = 0 THEN S ELSE CancelTask([S EXCEPT !.table[i] = 0], c)

(* lazy_community.retrieve_cache around a plain handler: wrapper + handler body *)
DoRespond(S, i, op) ==
  LET c == S.table[i] IN
  IF c = 0 THEN S                                             \* cache_retrieval_failed: the handler is not called
  ELSE IF ClaimFirst THEN DoNested(DoPop(S, i), op)            \* claimed, then the body (which may raise: no effect)
  ELSE LET S1 == [S EXCEPT !.st[c] = "claimed", !.nC[c] = @ + 1]
           S2 == DoNested(S1, op)
       IN IF op[1] = "raise" THEN S2 ELSE DoUnlist(S2, i)

(* ------------------------------------------ actions --------------------------------------------- *)
Add(c, d) ==
  /\ \/ st[c] = "new" /\ \A b \in Caches : b < c => st[b] # "new"
     \/ st[c] = "refused"
  /\ Apply(DoAdd(Cur, c, d))
  /\ UNCHANGED <<params, zombie, shutdown, rcdown, ovr, readds, hpend>>

(* the same cache object, whose request has ended, is registered again (a new request).  When add() refuses it  *)
(* (duplicate identity / shut down) the ended request stays what it was.                                         *)
ReAdd(c, d) ==
  /\ readds < ReAdds /\ st[c] \in {"claimed", "timedout"} /\ task[c] \notin Live /\ ~zombie[c]
  /\ IF ~shutdown /\ table[ident[c]] = 0
     THEN /\ Apply(DoAdd(Cur, c, d))
          /\ zombie' = [zombie EXCEPT ![c] = (task[c] = "dying")]
     ELSE /\ fut' = [fut EXCEPT ![c] = IF shutdown THEN Sweep(@, Cancelled(c)) ELSE @]
          /\ UNCHANGED <<st, task, tracked, due, table, nT, late, nC, zombie>>
  /\ readds' = readds + 1
  /\ UNCHANGED <<params, shutdown, rcdown, ovr, hpend>>

Pop(i) == /\ Apply(DoPop(Cur, i))
          /\ UNCHANGED <<params, zombie, shutdown, rcdown, ovr, readds, hpend>>

(* a response arrives and is dispatched to a retrieve_cache handler whose body does <<k, a>> *)
Respond(i, k, a) ==
  /\ HOk(k, a) /\ (table[i] = 0 => k = "none")
  /\ (k = "add" => HasNew(Cur))
  /\ Apply(DoRespond(Cur, i, <<k, a>>))
  /\ UNCHANGED <<params, zombie, shutdown, rcdown, ovr, readds, hpend>>

(* ... to a coroutine handler: the wrapper claims the cache now, the body is a later step *)
RespondCo(i) ==
  /\ CoHandlers /\ hpend = 0
  /\ Apply(DoPop(Cur, i))
  /\ hpend' = table[i]
  /\ UNCHANGED <<params, zombie, shutdown, rcdown, ovr, readds>>

HandlerBody(k, a) ==
  /\ hpend # 0 /\ NestOk(k, a) /\ (k = "add" => HasNew(Cur))
  /\ Apply(DoNested(Cur, <<k, a>>))
  /\ hpend' = 0
  /\ UNCHANGED <<params, zombie, shutdown, rcdown, ovr, readds>>

(* first step of the task: delay_runner starts sleeping; with delay 0 register_task runs _on_timeout directly *)
TaskStart(c, k, a) ==
  LET op == <<k, a>> IN
  /\ task[c] = "start" /\ NestOk(k, a)
  /\ IF due[c] = 0
     THEN /\ (op[1] = "add" => HasNew(Cur))
          /\ Apply(DoTimeout(Cur, c, op))
     ELSE /\ op = <<"none", 0>>
          /\ task' = [task EXCEPT ![c] = "armed"]
          /\ UNCHANGED <<st, tracked, due, table, fut, nT, late, nC>>
  /\ UNCHANGED <<params, zombie, shutdown, rcdown, ovr, readds, hpend>>

Tick == /\ \E c \in Caches : task[c] = "armed" /\ due[c] > 0
        /\ due' = [c \in Caches |-> IF task[c] = "armed" /\ due[c] > 0 THEN due[c] - 1 ELSE due[c]]
        /\ UNCHANGED <<params, st, task, zombie, tracked, table, fut, nT, late, nC, shutdown, rcdown, ovr, readds, hpend>>

(* the loop runs the timer handle: the sleep future is completed, the task's wake-up is queued *)
TimerFire(c) == /\ task[c] = "armed" /\ due[c] = 0
                /\ task' = [task EXCEPT ![c] = "fired"]
                /\ UNCHANGED <<params, st, zombie, tracked, due, table, fut, nT, late, nC, shutdown, rcdown, ovr, readds, hpend>>

(* the queued wake-up runs: delay_runner calls _on_timeout *)
TaskWake(c, k, a) == /\ task[c] = "fired" /\ NestOk(k, a)
                     /\ (k = "add" => HasNew(Cur))
                     /\ Apply(DoTimeout(Cur, c, <<k, a>>))
                     /\ UNCHANGED <<params, zombie, shutdown, rcdown, ovr, readds, hpend>>

(* CancelledError delivered (if any) and done_cb of the current task: _pending_tasks.pop(name) *)
Reap(c) == /\ task[c] = "dying"
           /\ task' = [task EXCEPT ![c] = "gone"]
           /\ tracked' = [tracked EXCEPT ![c] = FALSE]
           /\ UNCHANGED <<params, st, zombie, due, table, fut, nT, late, nC, shutdown, rcdown, ovr, readds, hpend>>

(* done_cb of an earlier task of the same cache object *)
ReapOld(c) == /\ zombie[c]
              /\ zombie' = [zombie EXCEPT ![c] = FALSE]
              /\ tracked' = [tracked EXCEPT ![c] = IF ReapOwnOnly THEN @ ELSE FALSE]
              /\ UNCHANGED <<params, st, task, due, table, fut, nT, late, nC, shutdown, rcdown, ovr, readds, hpend>>

(* TaskManager.cancel_all_pending_tasks(): cancel_pending_task for every name in _pending_tasks *)
CancelAll(S) ==
  LET hit(c) == S.tracked[c] /\ (S.task[c] \in {"start", "armed"} \/ (S.task[c] = "fired" /\ LateCancel)) IN
  [S EXCEPT !.tracked = [c \in Caches |-> FALSE],
            !.task = [c \in Caches |-> IF hit(c) THEN "dying" ELSE S.task[c]],
            !.due = [c \in Caches |-> IF hit(c) THEN 0 ELSE S.due[c]]]

Clear ==
  /\ LET S == CancelAll(Cur) IN
       Apply([S EXCEPT !.table = [i \in Idents |-> 0],
                       !.st = [c \in Caches |-> IF table[ident[c]] = c /\ S.st[c] \in {"outstanding", "stopped"} THEN "cleared"
                                                 ELSE S.st[c]]])
  /\ UNCHANGED <<params, zombie, shutdown, rcdown, ovr, readds, hpend>>

(* the synchronous part of RequestCache.shutdown(): whenever it is called - the first time, again, or after the     *)
(* task manager half was already torn down - every request still registered is dropped and its futures cancelled  *)
Shutdown ==
  /\ shutdown' = TRUE /\ rcdown' = TRUE
  /\ IF ShutGuard /\ shutdown
     THEN UNCHANGED <<st, task, tracked, due, table, fut, nT, late, nC>>
     ELSE LET S == CancelAll(Cur)
              inT(c) == table[ident[c]] = c IN
            Apply([S EXCEPT !.table = [i \in Idents |-> 0],
                            !.fut = [c \in Caches |-> IF inT(c) THEN Sweep(S.fut[c], Cancelled(c)) ELSE S.fut[c]],
                            !.st = [c \in Caches |-> IF inT(c) /\ S.st[c] \in {"outstanding", "stopped"} THEN "halted"
                                                      ELSE S.st[c]]])
  /\ UNCHANGED <<params, zombie, ovr, readds, hpend>>

(* the synchronous part of the inherited TaskManager.shutdown_task_manager(): raises the flag and cancels every    *)
(* registered task; identifiers and futures are not its business (the requests stay registered, frozen)           *)
ShutdownTM ==
  /\ TMShutdown
  /\ shutdown' = TRUE
  /\ IF shutdown                                              \* "if self._shutdown: return"
     THEN UNCHANGED <<st, task, tracked, due, table, fut, nT, late, nC>>
     ELSE LET S == CancelAll(Cur) IN
            Apply([S EXCEPT !.st = [c \in Caches |-> IF S.st[c] = "outstanding" THEN "stopped" ELSE S.st[c]]])
  /\ UNCHANGED <<params, zombie, rcdown, ovr, readds, hpend>>

PassEnter(t, f) == /\ ~ovr.on /\ ovr' = [on |-> TRUE, t |-> t, filt |-> f]
                   /\ UNCHANGED <<params, st, task, zombie, tracked, due, table, fut, nT, late, nC, shutdown, rcdown, readds, hpend>>
PassExit == /\ ovr.on /\ ovr' = NoOvr
            /\ UNCHANGED <<params, st, task, zombie, tracked, due, table, fut, nT, late, nC, shutdown, rcdown, readds, hpend>>

(* somebody else completes / cancels one of the managed futures while the request is outstanding *)
NExt == Cardinality({p \in Caches \X (1..MaxFut) : p[2] \in DOMAIN fut[p[1]] /\ fut[p[1]][p[2]] = "ext"})
FutExt(c, j) ==
             /\ NExt < ExtFut /\ j \in DOMAIN fut[c] /\ fut[c][j] = "pending" /\ st[c] = "outstanding"
             /\ fut' = [fut EXCEPT ![c][j] = "ext"]
             /\ UNCHANGED <<params, st, task, zombie, tracked, due, table, nT, late, nC, shutdown, rcdown, ovr, readds, hpend>>

Next == \/ \E c \in Caches, d \in Delays : Add(c, d)
        \/ \E c \in Caches, d \in Delays : ReAdd(c, d)
        \/ \E i \in Idents : Pop(i)
        \/ \E i \in Idents, k \in HKinds, a \in NestArgs : Respond(i, k, a)
        \/ \E i \in Idents : RespondCo(i)
        \/ \E k \in NestKinds, a \in NestArgs : HandlerBody(k, a)
        \/ \E c \in Caches, k \in NestKinds, a \in NestArgs : TaskStart(c, k, a)
        \/ Tick
        \/ \E c \in Caches : TimerFire(c)
        \/ \E c \in Caches, k \in NestKinds, a \in NestArgs : TaskWake(c, k, a)
        \/ \E c \in Caches : Reap(c)
        \/ \E c \in Caches : ReapOld(c)
        \/ Clear
        \/ Shutdown
        \/ ShutdownTM
        \/ \E t \in PassTimeouts, f \in Filters : PassEnter(t, f)
        \/ PassExit
        \/ \E c \in Caches, j \in 1..MaxFut : FutExt(c, j)

Spec == Init /\ [][Next]_vars

(* ------------------------------------- properties (C10) ----------------------------------------- *)
TypeOK == /\ st \in [Caches -> {"new", "outstanding", "claimed", "timedout", "cleared", "halted", "refused", "rejected",
                                 "stopped"}]
          /\ task \in [Caches -> {"none", "start", "armed", "fired", "dying", "gone"}]
          /\ table \in [Idents -> Caches \cup {0}]
          /\ \A c \in Caches : /\ DOMAIN fut[c] = DOMAIN futk[c] /\ Len(futk[c]) <= MaxFut
                               /\ \A j \in DOMAIN fut[c] : fut[c][j] \in {"pending", "result", "exception", "cancelled", "ext"}
          /\ rcdown => shutdown
          /\ \A c \in Caches : nT[c] \in 0..3 /\ nC[c] \in 0..3 /\ due[c] \in Nat
          /\ hpend \in Caches \cup {0}

(* exactly one way to end: a claimed request never times out; a time-out happens once *)
ExactlyOnce        == \A c \in Caches : nT[c] <= 1 /\ (nT[c] = 1 => st[c] = "timedout") /\ nC[c] + nT[c] <= 1
(* claimed means: handed to exactly one claimant (a pop() caller or a handler), however that claimant fares *)
ClaimedOnce        == \A c \in Caches : nC[c] <= 1 /\ (nC[c] = 1 <=> st[c] = "claimed")
NoTimeoutAfterClaim == \A c \in Caches : st[c] = "claimed" => nT[c] = 0
(* ... and every request that is still outstanding has its time-out ahead of it *)
OutstandingWillEnd == \A c \in Caches : st[c] = "outstanding" => task[c] \in Live /\ tracked[c] /\ ~shutdown
(* a response after the time-out (or after any other end) finds nothing; the table is exactly the outstanding set *)
Registered(c)      == st[c] \in {"outstanding", "stopped"}
TableAgrees        == \A i \in Idents, c \in Caches : table[i] = c <=> (Registered(c) /\ ident[c] = i)
LateResponseFindsNothing == \A c \in Caches : st[c] \in Ended => table[ident[c]] # c
UniqueIdentity     == \A a, b \in Caches : Registered(a) /\ Registered(b) /\ ident[a] = ident[b] => a = b
(* every future tied to a request that timed out is done: completed by the time-out, or by somebody else before *)
FuturesCompletedOnTimeout == \A c \in Caches : st[c] = "timedout" => NoPending(fut[c])
(* once shutdown() has been called: nothing is registered, nothing can fire, every future tied to a request that   *)
(* was registered at that moment, or was offered to add() since the flag went up, is done                          *)
AfterShutdown      == rcdown  => /\ ~late
                                  /\ \A i \in Idents : table[i] = 0
                                  /\ \A c \in Caches : /\ ~Registered(c)
                                                       /\ task[c] \notin Live
                                                       /\ st[c] = "halted" => NoPending(fut[c]) /\ nT[c] = 0
                                                       /\ st[c] = "rejected" => NoPending(fut[c]) /\ nT[c] = 0
(* (the part of AfterShutdown that only shutdown() itself can break - used by the combined control configuration) *)
NothingRegisteredAfterShutdown == rcdown => \A i \in Idents : table[i] = 0
(* once the flag is up (shutdown() or the task manager teardown): no time-out is left that could fire, nothing is  *)
(* outstanding any more, and add() refuses (st "rejected") - see DoAdd                                            *)
AfterFlag          == shutdown => \A c \in Caches : /\ st[c] # "outstanding" /\ task[c] \notin Live
                                                    /\ st[c] = "rejected" => NoPending(fut[c]) /\ nT[c] = 0
                                                    /\ st[c] = "stopped" => nT[c] = 0 /\ nC[c] = 0
NoLateTimeout      == ~late
(* nothing of an ended request is left behind that could still fire *)
EndedIsQuiet       == \A c \in Caches : st[c] \in Ended \cup {"refused", "rejected", "new", "stopped"} => task[c] \notin Live
=============================================================================
