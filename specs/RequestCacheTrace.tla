------------------------- MODULE RequestCacheTrace -------------------------
(* Executions of the real RequestCache recorded by harness/drivers/c10.py (populations of 5..50     *)
(* caches, seeded event orders, FIFO ready queue, timers in deadline order) validated against       *)
(* RequestCache.tla.  The driver logs neutral events - which call it made / whose queued handle it  *)
(* ran - plus what it observed (return values, identifiers present, on_timeout counts, future       *)
(* states); the specification decides which action that was and what must have been observed.       *)
EXTENDS RequestCache, Sequences, Json, IOUtils, TLCExt

Traces == JsonDeserialize(IOEnv.TRACE_FILE)

VARIABLES tid, l
tvars == <<vars, tid, l>>

Tr == Traces[tid]
Ev == Tr.events

TraceInit == /\ tid \in 1..Len(Traces) /\ l = 1
             /\ ident = [c \in Caches |-> IF c <= Tr.n THEN Tr.ident[c] ELSE 1]
             /\ futk  = [c \in Caches |-> IF c <= Tr.n THEN Tr.futk[c] ELSE <<>>]
             /\ cls   = [c \in Caches |-> IF c <= Tr.n THEN Tr.cls[c] ELSE "A"]
             /\ InitDyn

Op(e) == IF e.nk = "none" THEN <<"none", 0>> ELSE <<e.nk, e.na>>

(* what a pop / add issued from inside the on_timeout callback of cache c must have returned *)
NestedRes(c, op) ==
  IF op[1] = "pop" THEN (IF table[op[2]] = c THEN 0 ELSE table[op[2]])
  ELSE IF op[1] = "add" THEN (IF st'[NextNew(Cur)] = "outstanding" THEN 1 ELSE 0)
  ELSE 0

(* ... and from inside the body of a retrieve_cache handler that was matched with identity i (already released) *)
HNestedRes(i, op) ==
  IF op[1] = "pop" THEN (IF op[2] = i THEN 0 ELSE table[op[2]])
  ELSE IF op[1] = "add" THEN (IF st'[NextNew(Cur)] = "outstanding" THEN 1 ELSE 0)
  ELSE 0

(* the statement is silent about futures and callbacks of requests dropped by clear(): any outcome, at most one call *)
ObsOk(e) == /\ \A i \in Idents : table'[i] = e.table[i]
            /\ \A c \in 1..Tr.n :
                 IF st'[c] = "cleared" THEN e.nT[c] <= 1
                 ELSE nT'[c] = e.nT[c] /\ fut'[c] = e.fut[c] /\ nC'[c] = e.nC[c]

Stutter == UNCHANGED vars

Step(e) ==
  CASE e.op = "add"      -> Add(e.c, e.d) /\ e.res = (IF st'[e.c] = "outstanding" THEN 1 ELSE 0)
    [] e.op = "readd"    -> ReAdd(e.c, e.d) /\ e.res = (IF st'[e.c] = "outstanding" THEN 1 ELSE 0)
    [] e.op = "pop"      -> Pop(e.i) /\ e.res = table[e.i]
    [] e.op = "resp"     -> Respond(e.i, e.hk, e.ha) /\ e.res = table[e.i] /\ e.nres = HNestedRes(e.i, <<e.hk, e.ha>>)
    [] e.op = "respco"   -> RespondCo(e.i) /\ e.res = table[e.i]
    [] e.op = "hbody"    -> HandlerBody(Op(e)[1], Op(e)[2]) /\ e.c = hpend /\ e.nres = NestedRes(0, Op(e))
    [] e.op = "step"     -> IF e.old THEN zombie[e.c] /\ Stutter
                            ELSE \/ TaskStart(e.c, Op(e)[1], Op(e)[2]) /\ e.nres = NestedRes(e.c, Op(e))
                                 \/ TaskWake(e.c, Op(e)[1], Op(e)[2]) /\ e.nres = NestedRes(e.c, Op(e))
                                 \/ task[e.c] = "dying" /\ Stutter     \* CancelledError delivered to the coroutine
    [] e.op = "fin"      -> IF e.old THEN ReapOld(e.c) ELSE Reap(e.c)
    [] e.op = "timer"    -> TimerFire(e.c)
    [] e.op = "tick"     -> IF \E c \in Caches : task[c] = "armed" /\ due[c] > 0 THEN Tick ELSE Stutter
    [] e.op = "clear"    -> Clear
    [] e.op = "shutdown" -> Shutdown
    [] e.op = "shutdowntm" -> ShutdownTM
    [] e.op = "penter"   -> PassEnter(e.t, e.f)
    [] e.op = "pexit"    -> PassExit
    [] e.op = "futext"   -> FutExt(e.c, e.j)
    [] OTHER             -> FALSE

TraceNext == /\ l <= Len(Ev)
             /\ Step(Ev[l]) /\ ObsOk(Ev[l])
             /\ l' = l + 1 /\ UNCHANGED tid

TraceSpec == TraceInit /\ [][TraceNext]_tvars

(* total verdict: a trace is rejected exactly when some logged event is not an enabled step of the specification *)
TraceAccepted == l <= Len(Ev) => ENABLED TraceNext
=============================================================================
