SPECIFICATION TraceSpec
CONSTANTS MaxRecs = 99 MaxCalls = 9999 MaxRuns = 9999 CommitBeforeReturn = TRUE TolerantVersionRead = FALSE
          AtomicUpgrade = FALSE Legacy = FALSE MaxBatches = 9999 GateResetOnError = TRUE ReloadWait = 0 MaxDepth = 9999 EnterKeepsPending = TRUE ParentFirst = TRUE Strict = TRUE
CONSTANTS MaxVers = 2 TokenConflict = "ignore" MaxFaults = 9999 CommitErrorRaises = TRUE
INVARIANT TraceAccepted
