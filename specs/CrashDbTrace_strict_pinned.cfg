SPECIFICATION TraceSpec
CONSTANTS MaxRecs = 99 MaxCalls = 9999 MaxRuns = 9999 CommitBeforeReturn = TRUE TolerantVersionRead = FALSE
          AtomicUpgrade = FALSE Legacy = FALSE Strict = TRUE
INVARIANT TraceAccepted
