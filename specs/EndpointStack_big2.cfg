SPECIFICATION Spec
CONSTANTS
  Ifaces = {"v4","v6"}
  Listeners = {"A","B"}
  Prefixes = {"p1","p2"}
  AddrKinds = {"c4","t6"}
  Sizes = {23,25}
  MsgIds = {1}
  WithStats = FALSE
  Closing = TRUE
  ClosedSendRaises = FALSE
  Explicit = TRUE
  MaxBytes = 25
  MaxMsgs = 1
  DupGeneral = FALSE
  StatsForwards = TRUE
  SendWhileClosing = FALSE
CONSTRAINT Bound
INVARIANT TypeOK
INVARIANT SendRouting
INVARIANT NotifyOnce
INVARIANT FanOut
INVARIANT CountersExact
INVARIANT StatsExact
INVARIANT NoLeak
PROPERTY Monotone
