\* replay: RandomChurn, 1 peer up to full round-trip history
SPECIFICATION Spec
CONSTANTS
  Peers = {"p1"}
  Ghosts = {}
  Trackers = {}
  Own = "own"
  UseWalk = FALSE
  UseEdge = FALSE
  UseChurn = TRUE
  Window = 2
  WalkTimeout = 1
  TargetInterval = 0
  TargetPeers <- MinusOne
  MaxPeers <- MinusOne
  EdgeLen = 3
  NbSize = 1
  EdgeTimeout = 1
  SampleSize = 2
  PingInterval = 0
  InactiveTime = 1
  DropTime = 2
  MaxPings = 5
  PingCacheTimeout = 1
  BootTimeout = 2
  MaxTime = 8
  TickLens = {1}
  IntroOwn = FALSE
  Dev = {}
CONSTRAINT Bounded
INVARIANT TypeOK
INVARIANT NetOK
INVARIANT WalkWindow
INVARIANT NoOwnAddress
INVARIANT EdgeShape
INVARIANT EdgeBound
PROPERTY DropOnlyAfterSilence
PROPERTY PingDiscipline
PROPERTY WalkTargets
PROPERTY ForgetOnlyUnreachable
PROPERTY WalkSpacing
PROPERTY EdgeGrowsVerified
PROPERTY PongCounted
