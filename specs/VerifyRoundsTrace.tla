------------------------- MODULE VerifyRoundsTrace -------------------------
(* Runs of two real AttestationCommunity nodes (harness/c18_rounds.py: step-mode loop, simulated network, real  *)
(* BonehExactAlgorithm with a fresh key, real RequestCache time-outs under virtual time) checked against          *)
(* VerifyRounds.tla. After every event that runs verifier code the harness reads the real objects back: `reg`     *)
(* (the round whose ProvingAttestationCache is registered), `aggs` (relativity_map of EVERY round object so far), *)
(* `pend` (the registered PendingChallengeCaches) and `fin` (rounds whose callback fired). Events:                *)
(*   V              verify_attestation_values: a new round was registered                                         *)
(*   M n            on_received_attestation ran: n challenges                                                     *)
(*   C k g i hc r keep   the prover handled challenge <<k, g, i, hc>> and answered r                              *)
(*   D k g i hc r keep   on_challenge_response for that answer                                                    *)
(*   TP / TC k g i hc    time-out of the registered proving cache / of one pending challenge cache                *)
(*   S k c pos s20  the callback of round k reported certainty for candidate c (cands = hash bits)                *)
(*   X              the run raised / did not finish                                                               *)
EXTENDS VerifyRounds, Json, IOUtils, TLCExt

Traces == JsonDeserialize(IOEnv.TRACE_FILE)

VARIABLES tid, l
tvars == <<vars, tid, l>>
Ev == Traces[tid].events
Range(f) == {f[x] : x \in DOMAIN f}
Rec(e) == P(e.k, e.g, e.i, e.hc)

TraceInit == /\ tid \in 1..Len(Traces) /\ l = 1
             /\ bits = Traces[tid].bits
             /\ revealed = <<>> /\ reg = 0 /\ rnd = <<>> /\ pend = {} /\ chal = {} /\ resp = {} /\ nh = 0 /\ dup = 0

(* the state of the real verifier after the event *)
Obs(e) == /\ reg' = e.reg
          /\ Len(rnd') = Len(e.aggs)
          /\ \A k \in 1..Len(rnd') : /\ \A x \in 0..3 : rnd'[k].agg[x] = e.aggs[k][x + 1]
                                     /\ (rnd'[k].res # <<>>) = e.fin[k]
          /\ pend' = {P(p[1], p[2], p[3], p[4]) : p \in Range(e.pend)}

TraceNext == /\ l <= Len(Ev)
             /\ LET e == Ev[l] IN
                  \/ /\ e.op = "V" /\ Verify /\ Obs(e)
                  \/ /\ e.op = "M" /\ Received /\ e.n = NP /\ Obs(e)
                  \/ /\ e.op = "C" /\ OnChallenge(Rec(e), e.r, e.keep)
                  \/ /\ e.op = "D" /\ OnResponse([k |-> e.k, g |-> e.g, i |-> e.i, hc |-> e.hc, r |-> e.r], e.keep)
                     /\ Obs(e)
                  \/ /\ e.op = "TP" /\ ProvTimeout /\ Obs(e)
                  \/ /\ e.op = "TC" /\ PendTimeout(Rec(e)) /\ Obs(e)
                  \/ /\ e.op = "S" /\ e.k \in Rounds /\ rnd[e.k].res # <<>>
                     /\ AT(e.k)!ScoreOK(Traces[tid].cands[e.c], e.pos, e.s20) /\ UNCHANGED vars
             /\ l' = l + 1 /\ UNCHANGED tid

TraceSpec == TraceInit /\ [][TraceNext]_tvars

(* total verdict: a trace is rejected exactly when some logged event is not an enabled spec step *)
TraceAccepted == l <= Len(Ev) => ENABLED TraceNext
=============================================================================
