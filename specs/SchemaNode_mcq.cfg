SPECIFICATION NodeSpec
CONSTANTS Nodes = {1, 2} Names = {"a", "b"} Formats <- MCFormats CacheBy = "none" Shared = FALSE
INVARIANT NodeTypeOK
INVARIANT ResolvesRegistered
