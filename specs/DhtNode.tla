------------------------------- MODULE DhtNode -------------------------------
(* ipv8/dht/routing.py : Node (last_queries, blocked, last_response, failed, last_ping_sent, status),       *)
(* ipv8/dht/community.py : get_requesting_node (per-node query rate limiter in front of on_ping_request /   *)
(* on_find_request / on_store_request), on_node_discovered, ping, on_ping_response, Request.on_timeout /    *)
(* on_complete, and ipv8/dht/churn.py : PingChurn.take_step (bad-node removal, periodic pings).             *)
(*                                                                                                          *)
(* ONE serving node and ONE other node c (one routing-table entry).  Discrete clock; every stored timestamp *)
(* is kept as an AGE (ticks since), capped where the code cannot tell the difference any more.              *)
(*   Query          c sends a request (ping / find / store): refused when c is held and blocked, otherwise  *)
(*                  c is admitted to the table if new, the query is remembered and answered                 *)
(*   Discover       an introduction from c arrives (on_node_discovered): new nodes are added and pinged     *)
(*   Churn          PingChurn.take_step: a BAD node is removed from table and Network; a held node whose    *)
(*                  last ping is PingInterval old is pinged; held nodes are registered in the Network       *)
(*   Lookup         the serving node starts a lookup (find_values) whose crawl sends a find request to c    *)
(*                  through the table entry (the link between crawls and the failure counters)              *)
(*   Answer(i)      c answers the i-th outstanding request (on_ping_response / on_find_response ->          *)
(*                  Request.on_complete)                                                                    *)
(*   Tick(d)        d ticks pass; requests that reach their time-out expire (Request.on_timeout: failed+=1) *)
(*                                                                                                          *)
(* SAFETY PROPERTIES                                                                                        *)
(*  N1 InvWindow     "we allow a maximum number of [Limit] queries during a [Interval] interval": among the *)
(*                   queries of c answered since c was (re-)admitted to the table, at most Limit are        *)
(*                   younger than Interval (sliding window).  [The limiter state lives in the table entry;  *)
(*                   an entry dropped as BAD and re-created starts a new window - allowed, see the driver]  *)
(*  N2 InvRefuse     "additional queries will be dropped" - and only those: a query is refused only when    *)
(*                   Limit answered queries are younger than Interval; refused queries are not remembered   *)
(*  N3 InvStatus     Node.status follows its docstring: BAD iff MaxFail consecutive requests went           *)
(*                   unanswered; else GOOD iff c answered within GoodWindow, or answered at some time and   *)
(*                   sent a query within GoodWindow; else UNKNOWN (stated over independent history)         *)
(*  N4 InvChurn      right after take_step no BAD node is held, every held node was pinged less than        *)
(*                   PingInterval ago, and the Network knows exactly the held nodes                          *)
(*  N5 InvDeadGone   with take_step running every tick, a node that stays silent is dropped: no held node   *)
(*                   has been silent for MaxFail * (PingInterval + PingTimeout) + 1 ticks or more           *)
EXTENDS Integers, Sequences, FiniteSets, TLC

CONSTANTS Interval,        \* NODE_LIMIT_INTERVAL (5 s)
          Limit,           \* NODE_LIMIT_QUERIES  (10)
          PingInterval,    \* PingChurn.ping_interval (25 s)
          PingTimeout,     \* Request time-out of a ping (5 s)
          FindTimeout,     \* Request time-out of a find request (2 s)
          GoodWindow,      \* 15 * 60 s
          MaxFail,         \* 2
          Jumps,           \* the numbers of ticks one Tick may advance
          MaxOut,          \* bound on simultaneously outstanding pings (state space)
          WithQuery, WithPing, WithLookup,
          ChurnEveryTick,  \* TRUE: take_step runs (at least) once per tick, as the strategy loop does
          \* deviations (negative controls)
          CtlCountRefused, \* a refused query is remembered as well
          CtlNotAdmitted,  \* the requester is never admitted to the table (a throw-away Node per query)
          CtlNoReset,      \* an answer does not reset the failure counter
          CtlNoRemove      \* take_step does not remove BAD nodes

Never == -1
Cap(x, c) == IF x > c THEN c ELSE x
Older(a, d, c) == IF a = Never THEN Never ELSE Cap(a + d, c)

VARIABLES held,      \* c is in the routing table
          innet,     \* c is a verified peer of the overlay's Network
          q,         \* ages of the remembered queries (deque, maxlen Limit), oldest first, capped at Interval
          lq,        \* age of the newest remembered query (Never / capped at GoodWindow)
          lr,        \* age of last_response (Never / capped at GoodWindow)
          failed,    \* capped at MaxFail
          lps,       \* age of last_ping_sent (Never / capped at PingInterval)
          out,       \* outstanding requests to c, oldest first: [age, stale, tmo]  (stale: sent through an entry
                     \* that was removed since; tmo: PingTimeout or FindTimeout)
          churned,   \* take_step ran since the last tick
          status,    \* Node.status of the held entry ("none" when c is not held) - a function of the variables above
          last,      \* outcome of the last step, for the binding: "served" | "refused" | "discover-ping" | "discover-known"
                     \* | "churn-ping" | "churn-removed" | "churn-idle" | "lookup" | "-"
          \* history, independent of the implementation variables
          hServed,   \* ages (< Interval) of ALL answered queries of c since it was (re-)admitted
          hRefuseOK, \* every refusal happened with Limit answered queries younger than Interval
          hResp,     \* age of the last answer of c to a request sent to the CURRENT entry (Never / capped GoodWindow)
          hFail,     \* unanswered requests to the current entry since its last answer (capped MaxFail)
          hQuery,    \* age of the last answered query of the current entry
          hSilent    \* ticks since the later of: the entry was created, c's last answer (capped)
vars == <<held, innet, q, lq, lr, failed, lps, out, churned, status, last, hServed, hRefuseOK, hResp, hFail, hQuery, hSilent>>

SilentCap == MaxFail * (PingInterval + PingTimeout) + 2

Blocked == Len(q) = Limit /\ q[1] < Interval

Status == IF failed >= MaxFail THEN "BAD"
          ELSE IF (lr # Never /\ lr < GoodWindow) \/ (lr # Never /\ lq # Never /\ lq < GoodWindow) THEN "GOOD"
          ELSE "UNKNOWN"

DocStatus == IF hFail >= MaxFail THEN "BAD"
             ELSE IF (hResp # Never /\ hResp < GoodWindow) \/ (hResp # Never /\ hQuery # Never /\ hQuery < GoodWindow)
                  THEN "GOOD" ELSE "UNKNOWN"

Push(s, x) == IF Len(s) >= Limit THEN Append(Tail(s), x) ELSE Append(s, x)

Init == /\ held = FALSE /\ innet = FALSE /\ q = <<>> /\ lq = Never /\ lr = Never /\ failed = 0 /\ lps = Never
        /\ out = <<>> /\ churned = TRUE /\ status = "none" /\ last = "-"
        /\ hServed = <<>> /\ hRefuseOK = TRUE /\ hResp = Never /\ hFail = 0 /\ hQuery = Never /\ hSilent = 0

FreshEntry == /\ lr' = Never /\ failed' = 0 /\ lps' = Never
              /\ hResp' = Never /\ hFail' = 0 /\ hSilent' = 0

QueryBody ==
  /\ WithQuery
  /\ IF held /\ Blocked
     THEN /\ last' = "refused"
          /\ hRefuseOK' = (hRefuseOK /\ Len(hServed) >= Limit)
          /\ q' = (IF CtlCountRefused THEN Push(q, 0) ELSE q)
          /\ UNCHANGED <<held, innet, lq, lr, failed, lps, out, churned, hServed, hResp, hFail, hQuery, hSilent>>
     ELSE /\ last' = "served"
          /\ hServed' = Append(hServed, 0)
          /\ UNCHANGED <<innet, out, churned, hRefuseOK>>
          /\ IF CtlNotAdmitted
             THEN UNCHANGED <<held, q, lq, lr, failed, lps, hResp, hFail, hQuery, hSilent>>
             ELSE /\ held' = TRUE
                  /\ q' = (IF held THEN Push(q, 0) ELSE <<0>>)
                  /\ lq' = 0 /\ hQuery' = 0
                  /\ IF held THEN UNCHANGED <<lr, failed, lps, hResp, hFail, hSilent>> ELSE FreshEntry

SendPing == /\ out' = Append(out, [age |-> 0, stale |-> FALSE, tmo |-> PingTimeout])
            /\ lps' = 0

DiscoverBody ==
  /\ WithPing
  /\ innet' = TRUE                           \* the introduction itself makes c a verified peer
  /\ IF held
     THEN /\ last' = "discover-known"
          /\ UNCHANGED <<held, q, lq, lr, failed, lps, out, hResp, hFail, hQuery, hSilent>>
     ELSE /\ Len(out) < MaxOut
          /\ held' = TRUE /\ q' = <<>> /\ lq' = Never /\ hQuery' = Never
          /\ lr' = Never /\ failed' = 0 /\ hResp' = Never /\ hFail' = 0 /\ hSilent' = 0
          /\ SendPing
          /\ last' = "discover-ping"
  /\ UNCHANGED <<churned, hServed, hRefuseOK>>

ChurnBody ==
  /\ WithPing
  /\ churned' = TRUE
  /\ IF held /\ Status = "BAD" /\ ~CtlNoRemove
     THEN /\ held' = FALSE /\ innet' = FALSE
          /\ q' = <<>> /\ lq' = Never /\ lr' = Never /\ failed' = 0 /\ lps' = Never
          /\ out' = [i \in 1..Len(out) |-> [out[i] EXCEPT !.stale = TRUE]]
          /\ hResp' = Never /\ hFail' = 0 /\ hQuery' = Never /\ hSilent' = 0
          /\ last' = "churn-removed"
          /\ hServed' = <<>>              \* the limiter state lives in the entry: the window restarts with a new entry
          /\ UNCHANGED hRefuseOK
     ELSE /\ innet' = held
          /\ IF held /\ (lps = Never \/ lps >= PingInterval)
             THEN Len(out) < MaxOut /\ SendPing /\ last' = "churn-ping"      \* (MaxOut only bounds the state space)
             ELSE UNCHANGED <<out, lps>> /\ last' = "churn-idle"
          /\ UNCHANGED <<held, q, lq, lr, failed, hServed, hRefuseOK, hResp, hFail, hQuery, hSilent>>

LookupBody ==
  /\ WithLookup
  /\ held /\ Status # "BAD"                  \* closest_nodes leaves BAD nodes out
  /\ Len(out) < MaxOut
  /\ out' = Append(out, [age |-> 0, stale |-> FALSE, tmo |-> FindTimeout])
  /\ last' = "lookup"
  /\ UNCHANGED <<held, innet, q, lq, lr, failed, lps, churned, hServed, hRefuseOK, hResp, hFail, hQuery, hSilent>>

AnswerBody(i) ==
  /\ i \in 1..Len(out)
  /\ out' = SubSeq(out, 1, i - 1) \o SubSeq(out, i + 1, Len(out))
  /\ last' = "-"
  /\ IF out[i].stale
     THEN UNCHANGED <<lr, failed, hResp, hFail, hSilent>>
     ELSE /\ lr' = 0 /\ failed' = (IF CtlNoReset THEN failed ELSE 0)
          /\ hResp' = 0 /\ hFail' = 0 /\ hSilent' = 0
  /\ UNCHANGED <<held, innet, q, lq, lps, churned, hServed, hRefuseOK, hQuery>>

TickBody(d) ==
  /\ d \in Jumps
  /\ (ChurnEveryTick /\ WithPing) => (churned /\ d = 1)
  /\ LET expired == {i \in 1..Len(out) : out[i].age + d >= out[i].tmo}
         nfail   == Cardinality({i \in expired : ~out[i].stale})
         keep    == SelectSeq(out, LAMBDA o : o.age + d < o.tmo)
     IN /\ out' = [i \in 1..Len(keep) |-> [keep[i] EXCEPT !.age = @ + d]]
        /\ failed' = Cap(failed + nfail, MaxFail)
        /\ hFail' = Cap(hFail + nfail, MaxFail)
  /\ q' = [i \in 1..Len(q) |-> Cap(q[i] + d, Interval)]
  /\ lq' = Older(lq, d, GoodWindow) /\ lr' = Older(lr, d, GoodWindow) /\ lps' = Older(lps, d, PingInterval)
  /\ hServed' = LET aged == [i \in 1..Len(hServed) |-> hServed[i] + d] IN SelectSeq(aged, LAMBDA a : a < Interval)
  /\ hResp' = Older(hResp, d, GoodWindow) /\ hQuery' = Older(hQuery, d, GoodWindow)
  /\ hSilent' = (IF held THEN Cap(hSilent + d, SilentCap) ELSE 0)
  /\ churned' = FALSE
  /\ last' = "-"
  /\ UNCHANGED <<held, innet, hRefuseOK>>

SetStatus == status' = (IF held' THEN Status' ELSE "none")
Query == QueryBody /\ SetStatus
Discover == DiscoverBody /\ SetStatus
Churn == ChurnBody /\ SetStatus
Lookup == LookupBody /\ SetStatus
Answer(i) == AnswerBody(i) /\ SetStatus
Tick(d) == TickBody(d) /\ SetStatus

Next == \/ Query \/ Discover \/ Churn
        \/ Lookup
        \/ \E i \in 1..MaxOut : Answer(i)
        \/ \E d \in Jumps : Tick(d)
Spec == Init /\ [][Next]_vars

(* ------------------------------------------------------------------------------------------------------ *)
TypeOK == /\ held \in BOOLEAN /\ innet \in BOOLEAN /\ churned \in BOOLEAN
          /\ Len(q) <= Limit /\ \A i \in 1..Len(q) : q[i] \in 0..Interval
          /\ \A i, j \in 1..Len(q) : i < j => q[i] >= q[j]
          /\ lq \in {Never} \cup 0..GoodWindow /\ lr \in {Never} \cup 0..GoodWindow
          /\ lps \in {Never} \cup 0..PingInterval /\ failed \in 0..MaxFail
          /\ Len(out) <= MaxOut /\ \A i \in 1..Len(out) : out[i].age \in 0..(out[i].tmo - 1)
          /\ (~held => q = <<>> /\ lq = Never /\ lr = Never /\ failed = 0 /\ lps = Never)

InvWindow == Len(hServed) <= Limit
InvRefuse == hRefuseOK
InvStatus == /\ held => (status = DocStatus /\ status = Status)
             /\ ~held => status = "none"
InvChurn  == (last \in {"churn-ping", "churn-removed", "churn-idle"}) =>
                /\ (held => Status # "BAD")
                /\ (held => lps # Never /\ lps < PingInterval)
                /\ innet = held
InvDeadGone == (ChurnEveryTick /\ WithPing) => (held => hSilent < MaxFail * (PingInterval + PingTimeout) + 1)
=============================================================================
