--------------------------- MODULE NetworkTrace ---------------------------
(* Histories recorded from the real ipv8.peerdiscovery.network.Network (harness/drivers/c12.py) checked  *)
(* against Network.tla: every logged call must be the corresponding action of the specification and must *)
(* reproduce the logged return value and the logged abstract state (verified peers, their addresses,     *)
(* services, known addresses).  The caches are NOT logged: they evolve as the specification says, and    *)
(* get_verified_by_address may return any verified peer that has the address (GetByAddressG, ~strict).   *)
(* The caller's collections of service ids are logged after every event too (e.bufs): the same objects   *)
(* are handed to discover_services again and again (DiscoverServicesBuf) and changed in place by the     *)
(* caller (CallerMutates); only CallerMutates (and the reading of a one-shot iterator) may move them, and *)
(* CallerMutates moves nothing else.                                                                     *)
(* remove_peer is logged with the object it was given (e.pa = 0: the stored object of a verified peer; else a fresh *)
(* Peer of key e.p at address e.pa, for verified and not verified peers alike); adv - the history of what was handed  *)
(* to discover_services since the last removal - is not logged: it follows the logged calls, and HistoryAgrees is     *)
(* checked in every state of every accepted history.                                                                   *)
EXTENDS Network, Json, IOUtils, TLCExt

Traces == JsonDeserialize(IOEnv.TRACE_FILE)

VARIABLES tid, l
tvars == <<vars, tid, l>>

Ev == Traces[tid].events

TraceInit == /\ tid \in 1..Len(Traces) /\ l = 1
             /\ Init

Call(e) ==
  \/ e.op = "AddVerified"          /\ AddVerified(e.p, e.a)
  \/ e.op = "DiscoverAddress"      /\ DiscoverAddress(e.p, e.pa, e.a, e.sv, e.ns)
  \/ e.op = "DiscoverServices"     /\ DiscoverServices(e.p, e.pa, Range(e.ss))
  \/ e.op = "DiscoverServicesBuf"  /\ DiscoverServicesBuf(e.p, e.pa, e.b)
  \/ e.op = "CallerMutates"        /\ CallerMutates(e.b, Range(e.ss))
  \/ e.op = "RemoveByAddress"      /\ RemoveByAddress(e.a)
  \/ e.op = "RemovePeer"           /\ RemovePeer(e.p, e.pa)        \* pa = 0: the stored object, else another object of the key
  \/ e.op = "LoadSnapshot"         /\ LoadSnapshot(Range(e.ss))
  \/ e.op = "GetByAddress"         /\ \E q \in 0..NP : Range(e.ret) = (IF q = 0 THEN {} ELSE {q}) /\ GetByAddressG(e.a, q, FALSE)
  \/ e.op = "GetByKey"             /\ GetByKey(e.p)
  \/ e.op = "GetPeersForService"   /\ GetPeersForService(e.sv)
  \/ e.op = "GetWalkable"          /\ GetWalkable(e.sv, e.ns)
  \/ e.op = "GetIntroductionsFrom" /\ GetIntroductionsFrom(e.p)
  \/ e.op = "Snapshot"             /\ Snapshot

(* get_introductions_from is outside the statement of the property: its answer is not constrained *)
TraceNext == /\ l <= Len(Ev)
             /\ LET e == Ev[l] IN
                  /\ Call(e)
                  /\ (e.op # "GetIntroductionsFrom" => ret' = Range(e.ret))
                  /\ verified' = Range(e.verified)
                  /\ addrOf' = [p \in Peers |-> [v4 |-> e.addr[p][1], v6 |-> e.addr[p][2]]]
                  /\ services' = [p \in Peers |-> Range(e.services[p])]
                  /\ bufs' = [b \in Bufs |-> Range(e.bufs[b])]
                  /\ all' = [a \in Addrs |-> [known |-> e.all[a][1] = 1, intro |-> e.all[a][2],
                                               svc |-> e.all[a][3], ns |-> e.all[a][4] = 1]]
             /\ l' = l + 1 /\ UNCHANGED tid

TraceSpec == TraceInit /\ [][TraceNext]_tvars

(* a trace is rejected exactly when some logged event is not an enabled step of the specification *)
TraceAccepted == l <= Len(Ev) => ENABLED TraceNext
(* for batches of corrupted histories (negative controls): NONE of them is followed to its end *)
TraceRejected == l <= Len(Ev)
=============================================================================
