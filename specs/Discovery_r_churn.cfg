\* replay: RandomChurn, 2 peers, window 1, max_peers 0 (one peer admitted by requests)
SPECIFICATION Spec
CONSTANTS
  Peers = {"p1", "p2"}
  Ghosts = {}
  Trackers = {}
  Own = "own"
  UseWalk = FALSE
  UseEdge = FALSE
  UseChurn = TRUE
  Window = 2
  WalkTimeout = 1
  TargetInterval = 0
  TargetPeers <- MinusOne
  MaxPeers = 0
  EdgeLen = 3
  NbSize = 1
  EdgeTimeout = 1
  SampleSize = 1
  PingInterval = 1
  InactiveTime = 1
  DropTime = 2
  MaxPings = 5
  PingCacheTimeout = 1
  BootTimeout = 2
  MaxTime = 3
  TickLens = {1}
  IntroOwn = FALSE
  Dev = {}
CONSTRAINT Bounded
INVARIANT TypeOK
INVARIANT NetOK
INVARIANT WalkWindow
INVARIANT NoOwnAddress
INVARIANT EdgeShape
INVARIANT EdgeBound
PROPERTY DropOnlyAfterSilence
PROPERTY PingDiscipline
PROPERTY WalkTargets
PROPERTY ForgetOnlyUnreachable
PROPERTY WalkSpacing
PROPERTY EdgeGrowsVerified
PROPERTY PongCounted
