SPECIFICATION TraceSpec
CONSTANTS BitSpace = 0 Honest = TRUE MaxV = 0 Below = 0 WidthOnly = FALSE RefBy = "format"
CONSTANTS Nodes <- SessionNodes Names = {} Formats = {} CacheBy = "none" Shared = FALSE
INVARIANT TraceAccepted
INVARIANT NodeTypeOK
INVARIANT RefTypeOK
INVARIANT ResolvesRegistered
INVARIANT ExactTypeOK
INVARIANT ExactSubProfile
INVARIANT ExactAggIsAnswers
INVARIANT ExactReconstructs
INVARIANT RangeTypeOK
INVARIANT RangeInsideBuilds
INVARIANT RangeInsideAccepted
INVARIANT RangeOutsideNever
