SPECIFICATION Spec
CONSTANTS Nodes = {1, 2} Adv = {2} Storers = {1} Connectors = {} AltAddr = {} AdvReqTargets = {1} AdvRespTargets = {1} ConnKeys = {} ConnPings = {0}
          Acts = {"token", "store", "pingall", "adv-pong"}
          Timeout = 1 PingInterval = 5 KeepAlive = 12 Enough = 2 MaxFind = 8
          Jumps = {1, 4, 13} MaxClock = 24 MaxId = 3 MaxEpoch = 1 MaxSent = 6
          EmptyKeyHit = FALSE PingTimeoutOk = FALSE NoTokenCheck = FALSE NoTargetCheck = FALSE AckFromSender = FALSE
          NoSweep = FALSE NoPuncture = FALSE PunctSwapped = FALSE SendRefused = FALSE PongUnsolicitedResets = TRUE
CONSTANT TokenPairs <- TP_keep
CONSTANT FindSets <- FS_all
CONSTRAINT Bound
INVARIANT TypeOK
INVARIANT StoreAuth
INVARIANT StoreForMeAcked
INVARIANT ConnectExact
INVARIANT RefusedNotSent
INVARIANT ConnectResult
INVARIANT UnsolicitedInert
INVARIANT SweptFresh
PROPERTY KeepAlive_P
