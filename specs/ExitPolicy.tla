----------------------------- MODULE ExitPolicy -----------------------------
(***************************************************************************)
(* C06 - an exit node never emits traffic its exit policy forbids.         *)
(*                                                                         *)
(* Part 1 (pure, module ExitClassifier): the traffic classifier and the    *)
(*   policy predicate Allowed(flags, d, prefix) over d \in Seq(0..255).     *)
(* Part 2: the life of ONE exit socket of a tunnel overlay:                *)
(*   disabled -> enabling0 (no outside transport yet) -> enabling4 (IPv4   *)
(*   transport open) -> ready (IPv4 and IPv6 open) -> closed,              *)
(*   one action per handler / task step of the implementation:             *)
(*     DataFromTunnel  = TunnelCommunity.on_data (exit branch) + exit_data *)
(*                       + TunnelExitSocket.enable + sendto                *)
(*     TransportReady  = one `await ...open()` of create_transports        *)
(*     ResolveDone     = completion of one DNS resolution (on_address)     *)
(*     OutsideDatagram = TunnelProtocol.datagram_received ->               *)
(*                       datagram_received_ipv4/6 -> tunnel_data           *)
(*     Close           = remove_exit_socket / TunnelExitSocket.close       *)
(* `emit` / `tun` hold what the LAST step handed to the outside transport  *)
(* resp. sent back into the tunnel: an invariant over them that holds in   *)
(* every reachable state is a statement about every emission ever made.    *)
(***************************************************************************)
EXTENDS ExitClassifier, FiniteSets

CONSTANTS QCap,            \* capacity of the waiting queue (deque(maxlen=10) in the implementation)
          MaxPend,         \* model bound: simultaneously pending DNS resolutions
          MaxOps,          \* model bound: number of steps of one behaviour
          NoInboundFilter, \* deviation (negative control): datagrams from outside are not filtered
          NoNullCheck,     \* deviation (negative control): destination 0.0.0.0:0 is not refused
          AnyoneOpens      \* deviation (negative control): any source address may open the socket

-----------------------------------------------------------------------------
(* Part 2: one exit socket. *)

VARIABLES flags,   \* configured peer flags (constant during a behaviour)
          prefix,  \* prefix of the tunnel overlay (constant during a behaviour)
          st,      \* "disabled" | "enabling0" | "enabling4" | "ready" | "closed"
          queue,   \* packets waiting for a transport: Seq([p, dk])
          pend,    \* pending DNS resolutions in order of creation: Seq([p, dk])
          emit,    \* handed to an outside transport by the last step: Seq([p, dk])
          tun,     \* sent back into the tunnel by the last step: Seq([p, fam])
          opener,  \* "none" | source of the data that opened the socket
          ops
vars == <<flags, prefix, st, queue, pend, emit, tun, opener, ops>>

Sources == {"prev", "port", "other"}   \* previous hop; previous hop's IP, other port; other IP
DestKinds == {"v4", "v6", "dom4", "dom6", "domfail", "null"}
IsDom(dk) == dk \in {"dom4", "dom6", "domfail"}
Resolved(dk) == IF dk = "dom6" THEN "v6" ELSE "v4"

HasTransport(s, dk) == IF dk = "v6" THEN s = "ready" ELSE s \in {"enabling4", "ready"}

(* deque(maxlen=QCap).append: the oldest entry falls out *)
Push(q, x) == IF Len(q) < QCap THEN Append(q, x) ELSE Append(Tail(q), x)

Ok(p) == Allowed(flags, p, prefix)

(* TunnelExitSocket.sendto in socket state s *)
SendTo(s, q, pe, p, dk) ==
    IF ~Ok(p) THEN [q |-> q, pe |-> pe, em |-> <<>>]
    ELSE IF IsDom(dk) THEN [q |-> q, pe |-> Append(pe, [p |-> p, dk |-> dk]), em |-> <<>>]
    ELSE IF ~HasTransport(s, dk) THEN [q |-> Push(q, [p |-> p, dk |-> dk]), pe |-> pe, em |-> <<>>]
    ELSE [q |-> q, pe |-> pe, em |-> <<[p |-> p, dk |-> dk]>>]

Quiet == /\ emit' = <<>> /\ tun' = <<>>
         /\ UNCHANGED <<st, queue, pend, opener>>

DataFromTunnel(src, dk, p) ==
    /\ ops < MaxOps
    /\ IsDom(dk) => Len(pend) < MaxPend
    /\ ops' = ops + 1 /\ UNCHANGED <<flags, prefix>>
    /\ IF st = "closed" THEN Quiet                                       \* unknown circuit
       ELSE IF dk = "null" /\ ~NoNullCheck THEN Quiet                    \* on_data: destination 0.0.0.0:0
       ELSE IF st = "disabled" /\ src = "other" /\ ~AnyoneOpens THEN Quiet   \* exit_data: wrong IP
       ELSE LET s1 == IF st = "disabled" THEN "enabling0" ELSE st
                r == SendTo(s1, queue, pend, p, dk)
            IN /\ st' = s1
               /\ opener' = IF st = "disabled" THEN src ELSE opener
               /\ queue' = r.q /\ pend' = r.pe /\ emit' = r.em /\ tun' = <<>>

TransportReady ==
    /\ ops < MaxOps /\ ops' = ops + 1 /\ UNCHANGED <<flags, prefix, pend, opener>>
    /\ st \in {"enabling0", "enabling4"}
    /\ tun' = <<>>
    /\ IF st = "enabling0"
       THEN st' = "enabling4" /\ emit' = <<>> /\ UNCHANGED queue
       ELSE /\ st' = "ready"
            /\ emit' = SelectSeq(queue, LAMBDA x : Ok(x.p))   \* the queue is flushed through sendto again
            /\ queue' = <<>>

ResolveDone(i) ==
    /\ ops < MaxOps /\ ops' = ops + 1 /\ UNCHANGED <<flags, prefix, st, opener>>
    /\ st # "closed"
    /\ i \in 1..Len(pend)
    /\ tun' = <<>>
    /\ LET x == pend[i]
           rest == SubSeq(pend, 1, i - 1) \o SubSeq(pend, i + 1, Len(pend))
       IN IF x.dk = "domfail"
          THEN pend' = rest /\ emit' = <<>> /\ UNCHANGED queue
          ELSE LET r == SendTo(st, queue, rest, x.p, Resolved(x.dk))
               IN queue' = r.q /\ pend' = r.pe /\ emit' = r.em

(* fam: "v4" | "v6" | "v6mapped" (an IPv4-mapped source on the IPv6 socket; the property is silent about it) *)
OutsideDatagram(fam, p) ==
    /\ ops < MaxOps /\ ops' = ops + 1 /\ UNCHANGED <<flags, prefix, st, queue, pend, opener>>
    /\ HasTransport(st, IF fam = "v4" THEN "v4" ELSE "v6")
    /\ emit' = <<>>
    /\ IF Ok(p) \/ NoInboundFilter
       THEN IF fam = "v6mapped" THEN tun' \in {<<>>, <<[p |-> p, fam |-> fam]>>}
                                ELSE tun' = <<[p |-> p, fam |-> fam]>>
       ELSE tun' = <<>>

Close ==
    /\ ops < MaxOps /\ ops' = ops + 1 /\ UNCHANGED <<flags, prefix, opener>>
    /\ st # "closed"
    /\ st' = "closed" /\ queue' = <<>> /\ pend' = <<>> /\ emit' = <<>> /\ tun' = <<>>

-----------------------------------------------------------------------------
(* Model-checking instance: representative packets of every class, real TunnelCommunity prefix. *)

TunnelPrefix == <<0, 2, 129, 222, 208, 115, 50, 189, 199, 117, 170, 90, 70, 249, 109, 233, 248, 243, 144, 187, 201, 243>>
OtherPrefix  == <<0, 2, 17, 34, 51, 68, 85, 102, 119, 136, 153, 1, 2, 3, 4, 5, 6, 7, 8, 9, 10, 11>>

Reps == << Mk([h |-> <<65, 0>>, n |-> 20, z |-> 0]),                  \* 1 uTP SYN
           Mk([h |-> <<0, 0, 0, 3, 9, 9, 9, 9>>, n |-> 8, z |-> 9]),  \* 2 tracker error response
           Mk([h |-> <<100, 49>>, n |-> 30, z |-> 101]),              \* 3 bencoded dictionary
           Mk([h |-> OtherPrefix, n |-> 40, z |-> 5]),                \* 4 IPv8, some other overlay
           Mk([h |-> TunnelPrefix, n |-> 40, z |-> 5]),               \* 5 IPv8, the tunnel overlay itself
           Mk([h |-> TunnelPrefix, n |-> 22, z |-> 243]),             \* 6 bare prefix: too short for IPv8
           Mk([h |-> <<255, 255>>, n |-> 40, z |-> 255]),             \* 7 junk
           Mk([h |-> <<0, 1, 7, 7, 7, 7, 7, 7, 0, 0, 0, 2>>, n |-> 30, z |-> 1]) >>  \* 8 IPv8-shaped and tracker-shaped
CONSTANT RepIds     \* which representatives the model checker uses

Init == /\ flags \in SUBSET {"BT", "IPV8", "RELAY"}
        /\ prefix = TunnelPrefix
        /\ st = "disabled" /\ queue = <<>> /\ pend = <<>> /\ emit = <<>> /\ tun = <<>>
        /\ opener = "none" /\ ops = 0

Next == \/ \E src \in Sources, dk \in DestKinds, r \in RepIds : DataFromTunnel(src, dk, Reps[r])
        \/ TransportReady
        \/ \E i \in 1..MaxPend : ResolveDone(i)
        \/ \E fam \in {"v4", "v6", "v6mapped"}, r \in RepIds : OutsideDatagram(fam, Reps[r])
        \/ Close

Spec == Init /\ [][Next]_vars

-----------------------------------------------------------------------------
(* What the property demands. *)

TypeOK == /\ st \in {"disabled", "enabling0", "enabling4", "ready", "closed"}
          /\ Len(queue) <= QCap
          /\ opener \in Sources \cup {"none"}

(* both directions: whatever reaches the outside or re-enters the tunnel passes the policy *)
EmitOnlyAllowed == /\ \A i \in 1..Len(emit) : Ok(emit[i].p)
                   /\ \A i \in 1..Len(tun) : Ok(tun[i].p)

NeverToNull == \A i \in 1..Len(emit) : emit[i].dk # "null"

(* the socket leaves "disabled" (towards an open outside socket) only through data from the previous hop's IP *)
OpenedOnlyByPrevHop == /\ st \in {"enabling0", "enabling4", "ready"} => opener \in {"prev", "port"}
                       /\ opener # "other"

(* nothing leaves before the socket was opened, nothing waits that would not be allowed to leave *)
EmitOnlyWhenOpen == emit # <<>> => st \in {"enabling4", "ready"}
QueueClean == /\ \A i \in 1..Len(queue) : Ok(queue[i].p) /\ queue[i].dk # "null" /\ ~IsDom(queue[i].dk)
              /\ \A i \in 1..Len(pend) : Ok(pend[i].p)
=============================================================================
