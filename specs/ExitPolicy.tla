----------------------------- MODULE ExitPolicy -----------------------------
(***************************************************************************)
(* C06 - an exit node never emits traffic its exit policy forbids.         *)
(*                                                                         *)
(* Part 1 (pure, module ExitClassifier): the traffic classifier and the    *)
(*   policy predicate Allowed(flags, d, prefix) over d \in Seq(0..255).     *)
(* Part 2: the life of ONE exit socket of a tunnel overlay:                *)
(*   disabled -> enabling0 (no outside transport yet) -> enabling4 (IPv4   *)
(*   transport open) -> ready (IPv4 and IPv6 open) -> closed,              *)
(*   one action per handler / task step of the implementation:             *)
(*     DataFromTunnel  = TunnelCommunity.on_data (exit branch) + exit_data *)
(*                       + TunnelExitSocket.enable + sendto                *)
(*     TransportReady  = one `await ...open()` of create_transports        *)
(*     ResolveDone     = completion of one DNS resolution (on_address)     *)
(*     OutsideDatagram = TunnelProtocol.datagram_received ->               *)
(*                       datagram_received_ipv4/6 -> tunnel_data           *)
(*     Close           = remove_exit_socket / TunnelExitSocket.close       *)
(* `emit` / `tun` hold what the LAST step handed to the outside transport  *)
(* resp. sent back into the tunnel: an invariant over them that holds in   *)
(* every reachable state is a statement about every emission ever made.    *)
(*                                                                         *)
(* Part 3 (history): every packet carries the outside address it is for /  *)
(* comes from, and the socket's dealings with every outside address are    *)
(* remembered (`asked`, `sentTo`, `heard`).  The property says "the SAME   *)
(* filter applies to what comes back": no step of the specification reads  *)
(* these variables - an address gains no privilege from what happened      *)
(* before (no "established flow").  They exist so that behaviours of the   *)
(* kind  history -> input from/to an address with that history  are part   *)
(* of the state space and of the recorded traces, and so that the          *)
(* deviation FlowCache can be expressed (negative controls).               *)
(*                                                                         *)
(* Part 4 (reconfiguration): `flags` is what the node is configured with   *)
(* NOW (TunnelSettings.peer_flags has a setter meant for run-time changes):*)
(* SetFlags may happen between any two steps.  The property speaks of the  *)
(* moment a packet reaches the outside / re-enters the tunnel: a packet    *)
(* that was accepted earlier and has been waiting since (for a DNS answer, *)
(* for the transports) is judged again, by the flags configured when it    *)
(* leaves.  Deviation StaleVerdict = a verdict taken at arrival is kept.   *)
(*                                                                         *)
(* Part 5 (who is the previous hop): "the circuit's own previous hop" is   *)
(* the address the circuit was created from, fixed for the life of the     *)
(* socket.  The node also keeps a network-wide belief about where the      *)
(* previous hop's KEY lives, which every validly signed overlay message    *)
(* updates - messages do not bind their sender address, so anybody can     *)
(* replay one from anywhere (SignedMessage, variable `seen`).  No step     *)
(* reads `seen`; deviation HopFollowsPeer = the opener check compares with *)
(* that belief instead.                                                    *)
(*                                                                         *)
(* Part 6 (the filter has no memory of packets): the statement classifies  *)
(* "packets" - each one by its own bytes, under the flags configured when  *)
(* it passes.  `judged` remembers every packet this socket ever put        *)
(* through its filter (by the bytes a rule may look at: first 22 bytes,    *)
(* length, last byte) with the classes and the verdict it was given.  No   *)
(* step reads it: a packet gains or loses nothing from the packets that    *)
(* went before it, however much of it they share.  It exists so that       *)
(* behaviours  packet -> another packet sharing head / length / tail with  *)
(* it  are distinguished in the state space and the recorded traces        *)
(* (invariant VerdictByOwnShape), and so that the deviation VerdictMemo    *)
(* (classes or verdict re-used from an earlier packet with the same key)   *)
(* can be expressed (negative controls).                                   *)
(***************************************************************************)
EXTENDS ExitClassifier, FiniteSets

CONSTANTS QCap,            \* capacity of the waiting queue (deque(maxlen=10) in the implementation)
          MaxPend,         \* model bound: simultaneously pending DNS resolutions
          MaxOps,          \* model bound: number of steps of one behaviour
          NoInboundFilter, \* deviation (negative control): datagrams from outside are not filtered
          NoNullCheck,     \* deviation (negative control): destination 0.0.0.0:0 is not refused
          AnyoneOpens,     \* deviation (negative control): any source address may open the socket
          FlowCache,       \* deviation (negative control): "none" | "in_after_out" | "in_after_ask" | "in_after_in" |
                           \*   "out_after_out" | "out_after_in": an address the socket dealt with skips the filter
          StaleVerdict,    \* deviation (negative control): "none" | "dns" | "queue": a packet that waited for its name
                           \*   to be resolved / for the transports is not put through the filter again when it leaves
          HopFollowsPeer,  \* deviation (negative control): the source of the first data is compared with the address the
                           \*   previous hop's key was last seen at (`seen`) instead of the circuit's previous hop
          VerdictMemo,     \* deviation (negative control): "none" | "head_len" | "first2" | "packet": the classes of a
                           \*   packet are taken from an earlier packet with the same first 22 bytes and length / the
                           \*   same first two bytes; "packet": the verdict on an identical earlier packet is re-used
                           \*   (whatever the flags are now)
          FlagChoices,     \* model bound: the flag sets SetFlags may configure ({} = static configuration)
          SignedSrcs,      \* model bound: where signed messages of the previous hop's key may come from ({} = none)
          TrackHistory,    \* model bound: FALSE = the history variables stay empty (they are read by nothing but the
                           \*   deviation FlowCache and TypeOK; the history-free model covers more packets / sources)
          HostIps,         \* model bound: IP addresses / host names of the outside world
          HostPorts,       \* model bound: ports of the outside world
          SrcSet,          \* model bound: sources of tunnel data used by the model checker (subset of Sources)
          DkSet            \* model bound: destination kinds used by the model checker (subset of DestKinds)

-----------------------------------------------------------------------------
(* Part 2: one exit socket. *)

VARIABLES flags,   \* configured peer flags (changed by SetFlags only)
          cfgs,    \* every flag set that was configured during the behaviour so far
          seen,    \* source the latest validly signed overlay message of the previous hop's key came from
          prefix,  \* prefix of the tunnel overlay (constant during a behaviour)
          st,      \* "disabled" | "enabling0" | "enabling4" | "ready" | "closed"
          queue,   \* packets waiting for a transport: Seq([p, dk])
          pend,    \* pending DNS resolutions in order of creation: Seq([p, dk])
          emit,    \* handed to an outside transport by the last step: Seq([p, dk])
          tun,     \* sent back into the tunnel by the last step: Seq([p, fam])
          opener,  \* "none" | source of the data that opened the socket
          ops,
          asked,   \* outside addresses named as destination by accepted tunnel data (or resolved for it)
          sentTo,  \* outside addresses a packet was handed to an outside transport for
          heard,   \* outside addresses a datagram of which was sent back into the tunnel
          judged   \* packets put through the filter so far: {[v: view, bt, ipv8: classes used, ok: verdict]}
hist == <<asked, sentTo, heard, judged>>
conf == <<flags, prefix, cfgs, seen>>
vars == <<flags, prefix, st, queue, pend, emit, tun, opener, ops, asked, sentTo, heard, cfgs, seen, judged>>

(* an outside address; for a domain destination `ip` is the host name *)
Addr(ip, port) == [ip |-> ip, port |-> port]
NullAddr == Addr("0.0.0.0", 0)
AddrsOf(s) == {s[i].a : i \in 1..Len(s)}
Remember(known, new) == IF TrackHistory THEN known \cup new ELSE known

Sources == {"prev", "port", "other"}   \* previous hop; previous hop's IP, other port; other IP
IpOf(src) == IF src = "other" THEN "foreign" ELSE "prevhop"
(* exit_data: is the source of the data that would open the socket somebody else than the previous hop? *)
Foreign(src) == IF HopFollowsPeer THEN IpOf(src) # IpOf(seen) ELSE src = "other"
DestKinds == {"v4", "v6", "dom4", "dom6", "domfail", "null"}
IsDom(dk) == dk \in {"dom4", "dom6", "domfail"}
Resolved(dk) == IF dk = "dom6" THEN "v6" ELSE "v4"

HasTransport(s, dk) == IF dk = "v6" THEN s = "ready" ELSE s \in {"enabling4", "ready"}

(* deque(maxlen=QCap).append: the oldest entry falls out *)
Push(q, x) == IF Len(q) < QCap THEN Append(q, x) ELSE Append(Tail(q), x)

(* what the property permits: the packet's own shape under the flags configured now *)
Permitted(p) == Allowed(flags, p, prefix)
OkEver(p) == \E f \in cfgs : Allowed(f, p, prefix)

(* TunnelExitSocket.is_allowed.  In the specification proper (VerdictMemo = "none") it IS Permitted: the classes   *)
(* are computed from the packet at hand, the flags are read now.  The deviation takes them from `judged`.          *)
MemoKey(v) == CASE VerdictMemo = "head_len" -> <<v.h, v.n>>
                [] VerdictMemo = "first2" -> <<SubSeq(v.h, 1, IF Len(v.h) < 2 THEN Len(v.h) ELSE 2)>>
                [] OTHER -> <<v.h, v.n, v.z>>
Memo(p) == IF VerdictMemo = "none" THEN {} ELSE {m \in judged : MemoKey(m.v) = MemoKey(ViewOf(p))}
ClassOf(p) == IF Memo(p) # {} THEN LET m == CHOOSE m \in Memo(p) : TRUE IN [bt |-> m.bt, ipv8 |-> m.ipv8]
              ELSE [bt |-> CouldBeBt(p), ipv8 |-> CouldBeIpv8(p)]
Ok(p) == IF VerdictMemo = "packet" /\ Memo(p) # {} THEN (CHOOSE m \in Memo(p) : TRUE).ok
         ELSE AllowedClass(flags, ClassOf(p).bt, ClassOf(p).ipv8, BelongsTo(p, prefix))
(* the entry of `judged` a packet put through the filter in this step leaves behind *)
J(p) == [v |-> ViewOf(p), bt |-> ClassOf(p).bt, ipv8 |-> ClassOf(p).ipv8, ok |-> Ok(p)]
JudgedOf(s) == {J(s[i].p) : i \in 1..Len(s)}

(* the deviations: an address with a history is exempt from the filter (FALSE in the specification proper) *)
TrustedOut(a) == \/ FlowCache = "out_after_out" /\ a \in sentTo
                 \/ FlowCache = "out_after_in" /\ a \in heard
TrustedIn(a) == \/ FlowCache = "in_after_out" /\ a \in sentTo
                \/ FlowCache = "in_after_ask" /\ a \in asked
                \/ FlowCache = "in_after_in" /\ a \in heard

(* TunnelExitSocket.sendto in socket state s *)
(* skip: deviation StaleVerdict only (FALSE in the specification proper) *)
SendTo(s, q, pe, p, dk, a, skip) ==
    IF ~(Ok(p) \/ TrustedOut(a) \/ skip) THEN [q |-> q, pe |-> pe, em |-> <<>>]
    ELSE IF IsDom(dk) THEN [q |-> q, pe |-> Append(pe, [p |-> p, dk |-> dk, a |-> a]), em |-> <<>>]
    ELSE IF ~HasTransport(s, dk) THEN [q |-> Push(q, [p |-> p, dk |-> dk, a |-> a]), pe |-> pe, em |-> <<>>]
    ELSE [q |-> q, pe |-> pe, em |-> <<[p |-> p, dk |-> dk, a |-> a]>>]

Quiet == /\ emit' = <<>> /\ tun' = <<>>
         /\ UNCHANGED <<st, queue, pend, opener, hist>>

(* a: the destination address in the DATA cell (for dk = "null" it is NullAddr, for a domain the name and port) *)
DataFromTunnel(src, dk, a, p) ==
    /\ ops < MaxOps
    /\ IsDom(dk) => Len(pend) < MaxPend
    /\ ops' = ops + 1 /\ UNCHANGED conf
    /\ IF st = "closed" THEN Quiet                                       \* unknown circuit
       ELSE IF dk = "null" /\ ~NoNullCheck THEN Quiet                    \* on_data: destination 0.0.0.0:0
       ELSE IF st = "disabled" /\ Foreign(src) /\ ~AnyoneOpens THEN Quiet   \* exit_data: wrong IP
       ELSE LET s1 == IF st = "disabled" THEN "enabling0" ELSE st
                r == SendTo(s1, queue, pend, p, dk, a, FALSE)
            IN /\ st' = s1
               /\ opener' = IF st = "disabled" THEN src ELSE opener
               /\ queue' = r.q /\ pend' = r.pe /\ emit' = r.em /\ tun' = <<>>
               /\ asked' = Remember(asked, {a}) /\ sentTo' = Remember(sentTo, AddrsOf(r.em)) /\ UNCHANGED heard
               /\ judged' = Remember(judged, {J(p)})

TransportReady ==
    /\ ops < MaxOps /\ ops' = ops + 1 /\ UNCHANGED <<conf, pend, opener, asked, heard>>
    /\ st \in {"enabling0", "enabling4"}
    /\ tun' = <<>>
    /\ IF st = "enabling0"
       THEN st' = "enabling4" /\ emit' = <<>> /\ UNCHANGED <<queue, judged>>
       ELSE /\ st' = "ready"
            \* the queue is flushed through sendto again: judged by the flags configured NOW
            /\ emit' = SelectSeq(queue, LAMBDA x : Ok(x.p) \/ TrustedOut(x.a) \/ StaleVerdict = "queue")
            /\ queue' = <<>>
            /\ judged' = Remember(judged, JudgedOf(queue))
    /\ sentTo' = Remember(sentTo, AddrsOf(emit'))

(* ip: the address the name resolved to (what the resolver answers is not under the exit node's control: any    *)
(* address, also one the socket already dealt with); the port of the domain destination is kept                 *)
ResolveDone(i, ip) ==
    /\ ops < MaxOps /\ ops' = ops + 1 /\ UNCHANGED <<conf, st, opener, heard>>
    /\ st # "closed"
    /\ i \in 1..Len(pend)
    /\ tun' = <<>>
    /\ LET x == pend[i]
           rest == SubSeq(pend, 1, i - 1) \o SubSeq(pend, i + 1, Len(pend))
           ra == Addr(ip, x.a.port)
       IN IF x.dk = "domfail"
          THEN pend' = rest /\ emit' = <<>> /\ UNCHANGED <<queue, asked, sentTo, judged>>
          ELSE \* on_address -> sendto: the policy configured NOW decides, not the one the lookup started under
               LET r == SendTo(st, queue, rest, x.p, Resolved(x.dk), ra, StaleVerdict = "dns")
               IN /\ queue' = r.q /\ pend' = r.pe /\ emit' = r.em
                  /\ asked' = Remember(asked, {ra}) /\ sentTo' = Remember(sentTo, AddrsOf(r.em))
                  /\ judged' = Remember(judged, {J(x.p)})

(* fam: "v4" | "v6" | "v6mapped" (an IPv4-mapped source on the IPv6 socket; the property is silent about it) *)
(* a: the source address of the datagram - whoever it is and whatever the socket did with that address before,  *)
(* the datagram goes through the same filter as outbound data                                                   *)
OutsideDatagram(fam, a, p) ==
    /\ ops < MaxOps /\ ops' = ops + 1 /\ UNCHANGED <<conf, st, queue, pend, opener, asked, sentTo>>
    /\ HasTransport(st, IF fam = "v4" THEN "v4" ELSE "v6")
    /\ emit' = <<>>
    /\ IF Ok(p) \/ NoInboundFilter \/ TrustedIn(a)
       THEN IF fam = "v6mapped" THEN tun' \in {<<>>, <<[p |-> p, fam |-> fam, a |-> a]>>}
                                ELSE tun' = <<[p |-> p, fam |-> fam, a |-> a]>>
       ELSE tun' = <<>>
    /\ heard' = Remember(heard, AddrsOf(tun'))
    /\ judged' = Remember(judged, {J(p)})

Close ==
    /\ ops < MaxOps /\ ops' = ops + 1 /\ UNCHANGED <<conf, opener, hist>>
    /\ st # "closed"
    /\ st' = "closed" /\ queue' = <<>> /\ pend' = <<>> /\ emit' = <<>> /\ tun' = <<>>

(* settings.peer_flags = f at run time, in any state of the socket: nothing leaves, nothing is forgotten; what    *)
(* waits in `queue` / `pend` was accepted under an earlier configuration and meets the new one when it leaves      *)
SetFlags(f) ==
    /\ ops < MaxOps /\ ops' = ops + 1
    /\ flags' = f /\ cfgs' = cfgs \cup {f}
    /\ Quiet /\ UNCHANGED <<prefix, seen>>

(* a validly signed overlay message of the previous hop's key (introduction request, puncture, destroy for some   *)
(* other circuit, ...) arrives from source src - from the peer itself, or replayed by anybody from anywhere.       *)
(* It is not tunnel data: it moves the node's belief about the peer, never the socket                              *)
SignedMessage(src) ==
    /\ ops < MaxOps /\ ops' = ops + 1
    /\ seen' = src
    /\ Quiet /\ UNCHANGED <<flags, prefix, cfgs>>

-----------------------------------------------------------------------------
(* Model-checking instance: representative packets of every class, real TunnelCommunity prefix. *)

TunnelPrefix == <<0, 2, 129, 222, 208, 115, 50, 189, 199, 117, 170, 90, 70, 249, 109, 233, 248, 243, 144, 187, 201, 243>>
OtherPrefix  == <<0, 2, 17, 34, 51, 68, 85, 102, 119, 136, 153, 1, 2, 3, 4, 5, 6, 7, 8, 9, 10, 11>>

Reps == << Mk([h |-> <<65, 0>>, n |-> 20, z |-> 0]),                  \* 1 uTP SYN
           Mk([h |-> <<0, 0, 0, 3, 9, 9, 9, 9>>, n |-> 8, z |-> 9]),  \* 2 tracker error response
           Mk([h |-> <<100, 49>>, n |-> 30, z |-> 101]),              \* 3 bencoded dictionary
           Mk([h |-> OtherPrefix, n |-> 40, z |-> 5]),                \* 4 IPv8, some other overlay
           Mk([h |-> TunnelPrefix, n |-> 40, z |-> 5]),               \* 5 IPv8, the tunnel overlay itself
           Mk([h |-> TunnelPrefix, n |-> 22, z |-> 243]),             \* 6 bare prefix: too short for IPv8
           Mk([h |-> <<255, 255>>, n |-> 40, z |-> 255]),             \* 7 junk
           Mk([h |-> <<0, 1, 7, 7, 7, 7, 7, 7, 0, 0, 0, 2>>, n |-> 30, z |-> 1]),   \* 8 IPv8-shaped and tracker-shaped
           \* kin of the above: they share with an allowed shape everything but the bytes one rule reads
           Mk([h |-> <<100, 49>>, n |-> 30, z |-> 0]),                \* 9 = 3 with another last byte: not a dictionary
           Mk([h |-> <<65, 0>>, n |-> 19, z |-> 0]),                  \* 10 = 1 cut by one byte: too short for uTP
           Mk([h |-> TunnelPrefix, n |-> 40, z |-> 6]) >>             \* 11 = 5 with another last byte: same classes
CONSTANT RepIds     \* which representatives the model checker uses

Init == /\ flags \in SUBSET {"BT", "IPV8", "RELAY"}
        /\ prefix = TunnelPrefix
        /\ st = "disabled" /\ queue = <<>> /\ pend = <<>> /\ emit = <<>> /\ tun = <<>>
        /\ opener = "none" /\ ops = 0
        /\ asked = {} /\ sentTo = {} /\ heard = {} /\ judged = {}
        /\ cfgs = {flags} /\ seen = "prev"

AddrSet == {Addr(ip, port) : ip \in HostIps, port \in HostPorts}

Next == \/ \E src \in SrcSet, dk \in DkSet, r \in RepIds :
              \E a \in (IF dk = "null" THEN {NullAddr} ELSE AddrSet) : DataFromTunnel(src, dk, a, Reps[r])
        \/ TransportReady
        \/ \E i \in 1..MaxPend, ip \in HostIps : ResolveDone(i, ip)
        \/ \E fam \in {"v4", "v6", "v6mapped"}, a \in AddrSet, r \in RepIds : OutsideDatagram(fam, a, Reps[r])
        \/ Close
        \/ \E f \in FlagChoices : SetFlags(f)
        \/ \E src \in SignedSrcs : SignedMessage(src)

Spec == Init /\ [][Next]_vars

-----------------------------------------------------------------------------
(* What the property demands. *)

TypeOK == /\ st \in {"disabled", "enabling0", "enabling4", "ready", "closed"}
          /\ Len(queue) <= QCap
          /\ opener \in Sources \cup {"none"} /\ seen \in Sources
          /\ flags \in cfgs /\ cfgs \subseteq SUBSET {"BT", "IPV8", "RELAY"}
          /\ TrackHistory => /\ AddrsOf(emit) \subseteq sentTo /\ sentTo \subseteq asked
                             /\ AddrsOf(tun) \subseteq heard /\ AddrsOf(queue) \subseteq asked
                             \* nothing passes that was not put through the filter
                             /\ \A i \in 1..Len(emit) : \E m \in judged : m.v = ViewOf(emit[i].p)
                             /\ \A j \in 1..Len(tun) : \E m \in judged : m.v = ViewOf(tun[j].p)

(* both directions: whatever reaches the outside or re-enters the tunnel passes the policy - in every reachable   *)
(* state, i.e. after every history of the socket with the address concerned - and the policy is the one configured *)
(* at the step that lets it pass (SetFlags empties emit / tun, so `flags` here are the flags of that step)         *)
EmitOnlyAllowed == /\ \A i \in 1..Len(emit) : Permitted(emit[i].p)
                   /\ \A i \in 1..Len(tun) : Permitted(tun[i].p)

(* every verdict this socket ever took was taken on the packet's own shape - whatever it judged before; as long as *)
(* the node was never reconfigured, the verdict recorded for a shape is the one the flags give it                  *)
VerdictByOwnShape == \A m \in judged : /\ m.bt = CouldBeBt(Mk(m.v)) /\ m.ipv8 = CouldBeIpv8(Mk(m.v))
                                       /\ Cardinality(cfgs) = 1 => m.ok = Permitted(Mk(m.v))

NeverToNull == \A i \in 1..Len(emit) : emit[i].dk # "null"

(* the socket leaves "disabled" (towards an open outside socket) only through data from the previous hop's IP -   *)
(* wherever signed messages of the previous hop's key were seen coming from in the meantime                        *)
OpenedOnlyByPrevHop == /\ st \in {"enabling0", "enabling4", "ready"} => opener \in {"prev", "port"}
                       /\ opener # "other"

(* nothing leaves before the socket was opened, nothing waits that no configuration so far allowed to leave *)
EmitOnlyWhenOpen == emit # <<>> => st \in {"enabling4", "ready"}
QueueClean == /\ \A i \in 1..Len(queue) : OkEver(queue[i].p) /\ queue[i].dk # "null" /\ ~IsDom(queue[i].dk)
              /\ \A i \in 1..Len(pend) : OkEver(pend[i].p)
              /\ Cardinality(cfgs) = 1 => /\ \A j \in 1..Len(queue) : Permitted(queue[j].p)
                                          /\ \A k \in 1..Len(pend) : Permitted(pend[k].p)
=============================================================================
