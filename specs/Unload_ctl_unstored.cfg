SPECIFICATION Spec
CONSTANTS Wirings = {"plain", "tunnel"} Kinds = {"tunnel"} MaxTasks = 2 MaxCaches = 1 MaxSocks = 1 MaxBoot = 1 MaxTry = 1 MaxXTask = 1 StoreAtOpen = FALSE
          InitAwaited = TRUE UnloadRemovesPending = TRUE
          WrapperForwardsRemove = TRUE CryptoListenerRemoved = TRUE RemovalAwaited = TRUE
INVARIANT TypeOK
INVARIANT LoadedReachable
INVARIANT SilentAfterUnload
INVARIANT NoLateActivity
INVARIANT JobsHeld
PROPERTY NoNewTaskAfterUnload
