SPECIFICATION TraceSpec
CONSTANTS BitSpace = 0 Honest = TRUE MaxV = 0 Below = 0 WidthOnly = FALSE RefBy = "value"
CONSTANTS Nodes <- SessionNodes Names = {} Formats = {} CacheBy = "none" Shared = FALSE
INVARIANT TraceAccepted
INVARIANT ExactTypeOK
INVARIANT ExactSubProfile
INVARIANT ExactAggIsAnswers
INVARIANT ExactReconstructs
INVARIANT RangeTypeOK
INVARIANT RangeInsideBuilds
INVARIANT RangeInsideAccepted
INVARIANT RangeOutsideNever
