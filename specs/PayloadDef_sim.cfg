SPECIFICATION DSpec
CONSTANTS
  Pinned = {}
  Pads = {}
  FmtSel = {}
  ClsSel = {}
  K = 4
  DerivedMax = 12
  MaxFields = 12
  Kinds = {"?", "H", "I", "q", "20s", "varlenH", "varlenHutf8", "bits", "payload", "payload-list", "address", "arrayH-q"}
INVARIANT RoundTripDef
INVARIANT DefaultsUsed
