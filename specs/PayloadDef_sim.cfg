SPECIFICATION DSpec
CONSTANTS
  Pinned = {}
  Pads = {}
  FmtSel = {}
  ClsSel = {}
  K = 4
  DerivedMax = 12
  MaxFields = 12
  MaxConsts = 3
  CKinds = {"int", "text", "tuple", "msgid", "method"}
  Kinds = {"?", "H", "I", "q", "20s", "varlenH", "varlenHutf8", "bits", "payload", "payload-list", "address", "arrayH-q", "d", "arrayH-?", "arrayH-d"}
INVARIANT RoundTripDef
INVARIANT DefaultsUsed
INVARIANT ConstsOffWire
INVARIANT AnnotationsMean
