---------------------------- MODULE WireStrictMC ----------------------------
(* the format lists explored exhaustively (every byte string over Alphabet up to MaxLen for each of them);   *)
(* harness/c03_wire.py MC_FORMATS mirrors this list for the implementation side of the same domain.          *)
EXTENDS WireStrict
N(n, sub) == [n |-> n, sub |-> sub]
MCFormats == <<
  <<It("varlenH"), It("raw")>>,
  <<It("B"), It("varlenBx2"), It("B")>>,
  <<It("varlenH-list")>>,
  <<N("payload", <<It("varlenH"), It("B")>>), It("B")>>,
  <<N("payload-list", <<It("B"), It("varlenH")>>)>>,
  <<It("arrayH-?"), It("B")>>,
  <<It("arrayH-q")>>,
  <<It("address"), It("B")>>,
  <<It("ip_address")>>,
  <<It("varlenI"), It("H")>>,
  <<It("varlenHx20")>>,
  <<It("H"), It("varlenHutf8")>>,
  <<It("node-list")>>,
  <<It("bits"), It("ipv4"), It("raw")>> >>
=============================================================================
