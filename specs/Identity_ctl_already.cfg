\* negative control = the pinned should_sign: the already-attested comparison never matches (replay signs again)
SPECIFICATION MCSpec
CONSTANTS AlreadyChecked = FALSE PkPerAuthority = TRUE CheckSubject = TRUE CheckPermission = TRUE CommitBeforeSend = TRUE Window = 300 RespCap = 10 FitAll = 8
  Regs = {1} Senders = {1} TokIdx = {2} MdIdx = {2} AttIdx = {1} MissIdx = {1}
  Ticks = {} OwnerPeers = {} KnownVals = {} AttSend = {} RegFirst = TRUE FaultTabs = {}
  MaxReg = 1 MaxMsg = 2 MaxTick = 0 MaxOwn = 0 MaxFault = 0
INVARIANT SignsOnlyConsented
