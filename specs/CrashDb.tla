------------------------------ MODULE CrashDb ------------------------------
(* C19 - crash durability of the identity / attestation sqlite databases.                          *)
(*   ipv8/database.py                       Database.open/_prepare_version/execute/executescript/   *)
(*                                          commit/close                                            *)
(*   ipv8/attestation/identity/database.py  IdentityDatabase.insert_token/_metadata/_attestation,   *)
(*                                          check_database (schema script)                          *)
(*   ipv8/attestation/wallet/database.py    AttestationsDB.insert_attestation, check_database       *)
(*                                          (upgrade script + schema script)                        *)
(* Layer 1 [Db..]  : what sqlite does with the statements one python connection sends: a durable     *)
(*                  image D, the connection's working image T, autocommit unless a transaction is   *)
(*                  open, a process kill drops T.  Nothing about the python code is assumed here;   *)
(*                  recorded statement logs of the real code are validated against this layer       *)
(*                  (CrashDbTrace.tla) and the properties are evaluated in every state.             *)
(* Layer 1b        : what the CALLER may rely on (the acknowledgement rule of the property): an insert  *)
(*                  call that returns outside every "with database:" block acknowledges its record;  *)
(*                  inside a block the record is only HELD and is acknowledged when the outermost    *)
(*                  block is left normally; a block left by IgnoreCommits / an exception acknowledges *)
(*                  nothing [DbEnter, DbLeave, DbReturn].  The reload of a restarted process          *)
(*                  [DbReload] rebuilds the pseudonym from the rows the connection sees.              *)
(*                  A record is its primary key; the byte strings written under it are its FORMS (val): an    *)
(*                  INSERT meets a stored row as its conflict clause says [DbExecute(r, v, mode)]; the row of   *)
(*                  an acknowledged record keeps the form it was acknowledged with [ackv, AckedUnchanged].     *)
(*                  sqlite may FAIL a statement (full volume, I/O error, busy) [DbFail(d, rb)]: no effect, the *)
(*                  transaction kept or rolled back - what the caller was storing is not stored.               *)
(* Layer 2 [P..]   : the program: one action per statement the code issues, in the order the code    *)
(*                  issues them (open = read version, [upgrade], schema script; insert = BEGIN,     *)
(*                  INSERT, COMMIT, return), a crash possible between any two of them; the commit    *)
(*                  gate of Database (_pending_commits: __enter__ / commit / __exit__) [pend].        *)
EXTENDS Naturals, Sequences, FiniteSets, TLC

CONSTANTS MaxRecs,             \* the workload has 1..MaxRecs records (shape chosen in Init)
          MaxCalls,            \* bound on the number of insert calls (re-inserts after a restart included)
          MaxRuns,             \* bound on the number of processes (MaxRuns - 1 crashes/restarts)
          CommitBeforeReturn,  \* TRUE: insert_* commits before it returns.  FALSE: negative control
          TolerantVersionRead, \* TRUE: a missing 'database_version' row reads as version 0 (repaired code).
                               \* FALSE: pinned code - next() on the empty result raises StopIteration
          AtomicUpgrade,       \* TRUE: check_database runs upgrade + schema script in one transaction (repaired).
                               \* FALSE: pinned code - every statement of the scripts is its own transaction
          Legacy,              \* TRUE: the attestation database starts as a version-1 file holding record 1
          MaxBatches,          \* bound on the number of "with database:" blocks the workload opens (0: none)
          GateResetOnError,    \* TRUE: __exit__ re-enables commits whichever way the block is left (the code).
                               \* FALSE: negative control - an exception leaves the commits deferred
          ReloadWait,          \* 0: the reload fills the tree directly from the rows it reads (the code).
                               \* k > 0: negative control - rows are chained in the (arbitrary) order they are
                               \* read, a row whose parent was not read yet waits in a room for k - 1 rows
          MaxDepth,            \* how deep the program nests "with database:" blocks of ONE database (1: no nesting)
          EnterKeepsPending,   \* TRUE: __enter__ keeps the count of the commits that are already deferred
                               \* (max(1, _pending_commits), the code).  FALSE: negative control - entering a
                               \* block (again) starts the count afresh and forgets a commit that is owed
          ParentFirst,         \* TRUE: the program inserts a record only after the record it points to
                               \* (add_credential: Token, then Metadata, then its Attestations - the code).
                               \* FALSE: negative control - the records of a credential are written in any order
          MaxVers,             \* forms in which a token can be handed to insert_token (1: one form only; 2: with its
                               \* content and as the bare double pointer of its public form - same primary key,
                               \* other bytes)
          TokenConflict,       \* what the INSERT of a token does when a row with its primary key is stored already:
                               \* "ignore" (INSERT OR IGNORE, the code) / "replace" (negative control: the stored -
                               \* acknowledged - row is overwritten with the bytes of the later form)
          MaxFaults,           \* how many statements sqlite may FAIL (disk full, I/O error, busy) in a behaviour
          CommitErrorRaises    \* TRUE: a COMMIT that fails raises out of Database.commit() and out of the insert
                               \* call (the code).  FALSE: negative control - commit() swallows the error and the
                               \* insert call returns as if the record were stored

DBs   == {"id", "att"}
Kinds == {"token", "metadata", "attestation", "blob"}

VARIABLES recs,        \* workload: sequence of [kind, ref]; ref = record this one points to (0 = none/genesis)
          legacy,      \* records stored (and acknowledged) by an earlier software version
          D,           \* DBs -> durable image  [rows, data, opt, ver, cols]
          T,           \* DBs -> image seen by the open connection (= D when no transaction is open)
          inTxn,       \* DBs -> BOOLEAN
          up,          \* a process is running
          acked,       \* records whose insert call has returned
          executed,    \* records whose INSERT statement was ever executed (history)
          openFailed,  \* some open() raised
          runs,        \* processes started so far
          calls,       \* insert calls started so far
          pc,          \* program counter of the running process
          depth,       \* DBs -> number of "with database:" blocks the caller is in
          held,        \* records whose insert call returned inside a block that has not been left yet
          rebuilt,     \* what the reload produced, in the state right after the reload only
          pend,        \* DBs -> Database._pending_commits (0: commit() commits; > 0: commit() is deferred)
          batches,     \* blocks opened so far
          ackv,        \* acked record -> the form of its row at the moment it was acknowledged (0: no row then)
          faults       \* statements that sqlite has failed so far
ackvars == <<depth, held, ackv>>
dbvars  == <<D, T, inTxn, up, acked, executed, openFailed, runs, ackvars>>
vars    == <<recs, legacy, dbvars, calls, pc, pend, batches, faults>>
allvars == <<vars, rebuilt>>

(* image of one database file. rows: record ids; data: the data tables exist; opt: the option table  *)
(* exists; ver: 0 = no database_version row, 1 = an older version, 2 = latest; cols: 1 = old layout   *)
(* of the attestation table, 2 = layout with the id_format column; val: row -> the form (version of  *)
(* its bytes) that is stored, DOMAIN val = rows                                                       *)
Fresh     == [rows |-> {}, data |-> FALSE, opt |-> FALSE, ver |-> 0, cols |-> 2, val |-> <<>>]
LegacyImg == [rows |-> {1}, data |-> TRUE, opt |-> TRUE, ver |-> 1, cols |-> 1, val |-> (1 :> 1)]
StoredVer(img, r) == IF r \in img.rows THEN img.val[r] ELSE 0

DbOfKind(k) == IF k = "blob" THEN "att" ELSE "id"
DbOf(r)     == DbOfKind(recs[r].kind)
Ref(r)      == recs[r].ref
Recs        == 1..Len(recs)

(* --------------------------------- layer 1: sqlite semantics ------------------------------------- *)
Apply(d, img) == /\ T' = [T EXCEPT ![d] = img]
                 /\ D' = IF inTxn[d] THEN D ELSE [D EXCEPT ![d] = img]

DbStart == /\ ~up /\ up' = TRUE /\ runs' = runs + 1
           /\ UNCHANGED <<D, T, inTxn, acked, executed, openFailed, ackvars>>

DbBegin(d) == /\ up /\ ~inTxn[d]
              /\ inTxn' = [inTxn EXCEPT ![d] = TRUE]
              /\ UNCHANGED <<D, T, up, acked, executed, openFailed, runs, ackvars>>

DbCommit(d) == /\ up /\ inTxn[d]
               /\ D' = [D EXCEPT ![d] = T[d]]
               /\ inTxn' = [inTxn EXCEPT ![d] = FALSE]
               /\ UNCHANGED <<T, up, acked, executed, openFailed, runs, ackvars>>

(* INSERT of record r in form v. A row with the primary key of r may be stored already: INSERT OR IGNORE  *)
(* leaves it as it is, INSERT OR REPLACE overwrites it with the new bytes, a plain INSERT raises (no step) *)
Modes == {"ignore", "replace", "plain"}
DbExecute(r, v, mode) ==
  LET d == DbOf(r) IN
  /\ up /\ T[d].data /\ mode \in Modes
  /\ IF r \notin T[d].rows
     THEN Apply(d, [T[d] EXCEPT !.rows = @ \cup {r}, !.val = (r :> v) @@ @])
     ELSE /\ mode # "plain"
          /\ Apply(d, IF mode = "replace" THEN [T[d] EXCEPT !.val = (r :> v) @@ @] ELSE T[d])
  /\ executed' = executed \cup {r}
  /\ UNCHANGED <<inTxn, up, acked, openFailed, runs, ackvars>>

(* a statement FAILS (disk full, I/O error, database busy): it has no effect of its own; sqlite either keeps  *)
(* the open transaction (rb = FALSE) or has rolled it back (rb = TRUE) - never is anything made durable       *)
DbFail(d, rb) == /\ up /\ rb \in BOOLEAN
                 /\ IF rb /\ inTxn[d]
                    THEN T' = [T EXCEPT ![d] = D[d]] /\ inTxn' = [inTxn EXCEPT ![d] = FALSE]
                    ELSE UNCHANGED <<T, inTxn>>
                 /\ UNCHANGED <<D, up, acked, executed, openFailed, runs, ackvars>>

Schema(d, img) == /\ up /\ Apply(d, img)
                  /\ UNCHANGED <<inTxn, up, acked, executed, openFailed, runs, ackvars>>

DbCreateData(d) == Schema(d, [T[d] EXCEPT !.data = TRUE])
DbCreateOpt(d)  == Schema(d, [T[d] EXCEPT !.opt = TRUE])
DbDeleteVer(d)  == T[d].opt /\ Schema(d, [T[d] EXCEPT !.ver = 0])
DbInsertVer(d)  == T[d].opt /\ T[d].ver = 0 /\ Schema(d, [T[d] EXCEPT !.ver = 2])
DbAlter(d)      == T[d].data /\ T[d].cols = 1 /\ Schema(d, [T[d] EXCEPT !.cols = 2])
DbUpdate(d)     == T[d].data /\ T[d].cols = 2 /\ Schema(d, T[d])

(* statements the pinned code does not use but a repaired version may: a single-statement version   *)
(* write (INSERT OR REPLACE / UPDATE option) and ROLLBACK; only trace validation refers to them     *)
DbSetVer(d)   == T[d].opt /\ Schema(d, [T[d] EXCEPT !.ver = 2])
DbRollback(d) == /\ up /\ inTxn[d]
                 /\ T' = [T EXCEPT ![d] = D[d]] /\ inTxn' = [inTxn EXCEPT ![d] = FALSE]
                 /\ UNCHANGED <<D, up, acked, executed, openFailed, runs, ackvars>>

(* ----- layer 1b: acknowledgement ----- *)
(* an insert call returns: outside every block of its database the record is acknowledged now *)
(* the row of a record is pinned in the form it has when the record is FIRST acknowledged *)
AckForms(S) == [r \in (S \ DOMAIN ackv) |-> StoredVer(D[DbOf(r)], r)] @@ ackv
DbReturn(r) == /\ up /\ r \in executed
               /\ IF depth[DbOf(r)] = 0 THEN acked' = acked \cup {r} /\ ackv' = AckForms({r}) /\ UNCHANGED held
                                        ELSE held' = held \cup {r} /\ UNCHANGED <<acked, ackv>>
               /\ UNCHANGED <<D, T, inTxn, up, executed, openFailed, runs, depth>>

Hows == {"ok", "ignore", "error"}
DbEnter(d) == /\ up /\ depth' = [depth EXCEPT ![d] = @ + 1]
              /\ UNCHANGED <<D, T, inTxn, up, acked, executed, openFailed, runs, held, ackv>>
(* the block is left: normally ("ok"), by raise IgnoreCommits ("ignore") or by any other exception ("error") *)
DbLeave(d, how) ==
  LET mine == {r \in held : DbOf(r) = d} IN
  /\ up /\ depth[d] > 0 /\ how \in Hows
  /\ depth' = [depth EXCEPT ![d] = @ - 1]
  /\ IF how # "ok" THEN held' = held \ mine /\ UNCHANGED <<acked, ackv>>
     ELSE IF depth[d] = 1 THEN acked' = acked \cup mine /\ held' = held \ mine /\ ackv' = AckForms(mine)
     ELSE UNCHANGED <<acked, held, ackv>>
  /\ UNCHANGED <<D, T, inTxn, up, executed, openFailed, runs>>

(* ----- layer 1b: the reload of a (re)started process: PseudonymManager.__init__ ----- *)
Of(k, S) == {r \in S : recs[r].kind = k}
Chainable(r, chained) == Ref(r) = 0 \/ Ref(r) \in chained
RemoveAt(s, i) == [j \in 1..(Len(s) - 1) |-> IF j < i THEN s[j] ELSE s[j + 1]]
RECURSIVE React(_, _)
React(chained, waiting) ==       \* waiting rows whose parent got chained are chained as well
  IF \E i \in 1..Len(waiting) : Chainable(waiting[i], chained)
  THEN LET i == CHOOSE i \in 1..Len(waiting) : Chainable(waiting[i], chained)
       IN React(chained \cup {waiting[i]}, RemoveAt(waiting, i))
  ELSE <<chained, waiting>>
RECURSIVE Feed(_, _, _)
Feed(order, chained, waiting) ==
  IF order = <<>> THEN chained
  ELSE LET r == Head(order) IN
       IF Chainable(r, chained)
       THEN LET cw == React(chained \cup {r}, waiting) IN Feed(Tail(order), cw[1], cw[2])
       ELSE LET w == Append(waiting, r) IN
            Feed(Tail(order), chained, IF Len(w) > ReloadWait - 1 THEN Tail(w) ELSE w)
Orders(S) == {o \in [1..Cardinality(S) -> S] : \A i, j \in 1..Cardinality(S) : i # j => o[i] # o[j]}
ReloadTrees(S) == IF ReloadWait = 0 THEN {S} ELSE {Feed(o, {}, <<>>) : o \in Orders(S)}

NoRebuilt == [seen |-> FALSE, tree |-> {}, creds |-> {}, atts |-> {}]
DbReload == /\ up
            /\ \E tr \in ReloadTrees(Of("token", T["id"].rows)) :
                 rebuilt' = [seen |-> TRUE, tree |-> tr, creds |-> Of("metadata", T["id"].rows),
                             atts |-> Of("attestation", T["id"].rows)]
            /\ UNCHANGED dbvars

(* SIGKILL: the connection's uncommitted work is gone, the durable image stays *)
DbCrash == /\ up /\ up' = FALSE
           /\ T' = D /\ inTxn' = [d \in DBs |-> FALSE]
           /\ depth' = [d \in DBs |-> 0] /\ held' = {}
           /\ UNCHANGED <<D, acked, executed, openFailed, runs, ackv>>

(* open() raised: the process gives up, its connection is dropped without a commit *)
DbOpenError == /\ up /\ up' = FALSE /\ openFailed' = TRUE
               /\ T' = D /\ inTxn' = [d \in DBs |-> FALSE]
               /\ depth' = [d \in DBs |-> 0] /\ held' = {}
               /\ UNCHANGED <<D, acked, executed, runs, ackv>>

(* Database.close(): commit, then close (not from inside a block) *)
DbExit == /\ up /\ up' = FALSE /\ \A d \in DBs : depth[d] = 0
          /\ D' = T /\ inTxn' = [d \in DBs |-> FALSE]
          /\ UNCHANGED <<T, acked, executed, openFailed, runs, ackvars>>

(* --------------------------------- layer 2: the program ------------------------------------------ *)
Down == <<"down">>
(* what the reload produced is looked at in the state right after the reload: every other step forgets it *)
Same0 == UNCHANGED <<calls, recs, legacy, faults>> /\ rebuilt' = NoRebuilt
Same  == Same0 /\ UNCHANGED <<pend, batches>>

ValidRecs(s) ==
  \A i \in 1..Len(s) :
    LET k == s[i].kind  r == s[i].ref IN
    /\ r < i
    /\ k = "token"       => (IF r = 0 THEN TRUE ELSE s[r].kind = "token")
    /\ k = "metadata"    => (r > 0 /\ s[r].kind = "token"
                             /\ \A j \in 1..(i - 1) : ~(s[j].kind = "metadata" /\ s[j].ref = r))
    /\ k = "attestation" => (r > 0 /\ s[r].kind = "metadata"
                             /\ \A j \in 1..(i - 1) : ~(s[j].kind = "attestation" /\ s[j].ref = r))
    /\ k = "blob"        => r = 0

InitDb(leg) ==
  /\ legacy = leg
  /\ D = [d \in DBs |-> IF d = "att" /\ leg # {} THEN [LegacyImg EXCEPT !.rows = leg, !.val = [r \in leg |-> 1]]
                          ELSE Fresh]
  /\ T = D
  /\ inTxn = [d \in DBs |-> FALSE]
  /\ up = FALSE /\ acked = leg /\ executed = leg /\ openFailed = FALSE /\ runs = 0
  /\ depth = [d \in DBs |-> 0] /\ held = {} /\ rebuilt = NoRebuilt
  /\ ackv = [r \in leg |-> 1]

Init == /\ \E n \in 1..MaxRecs : recs \in [1..n -> [kind : Kinds, ref : 0..(MaxRecs - 1)]]
        /\ ValidRecs(recs)
        /\ Legacy => recs[1].kind = "blob"
        /\ InitDb(IF Legacy THEN {1} ELSE {})
        /\ calls = 0 /\ pc = Down /\ pend = [d \in DBs |-> 0] /\ batches = 0 /\ faults = 0

PStart == /\ pc = Down /\ runs < MaxRuns /\ DbStart
          /\ pc' = <<"open", "id", "rv", FALSE>> /\ Same

At(d, s) == Len(pc) = 4 /\ pc[1] = "open" /\ pc[2] = d /\ pc[3] = s
Old      == pc[4]
AfterOpen(d) == IF d = "id" THEN <<"open", "att", "rv", FALSE>>
                ELSE IF runs > 1 THEN <<"observe">> ELSE <<"idle">>

(* _prepare_version: SELECT COUNT .. FROM sqlite_master,, SELECT value FROM option ... *)
PReadVersion(d) ==
  /\ At(d, "rv") /\ Same
  /\ IF T[d].opt /\ T[d].ver = 0 /\ ~TolerantVersionRead
     THEN DbOpenError /\ pc' = <<"failed">>
     ELSE LET old == T[d].opt /\ T[d].ver = 1 IN
          /\ UNCHANGED dbvars
          /\ pc' = <<"open", d, IF AtomicUpgrade THEN "begin"
                               ELSE IF old THEN "alter" ELSE "cdata", old>>

POpenBegin(d) == /\ At(d, "begin") /\ DbBegin(d) /\ Same
                 /\ pc' = <<"open", d, IF Old THEN "alter" ELSE "cdata", Old>>

(* ALTER TABLE ... ADD id_format: fails with 'duplicate column name' when the column is there already *)
PAlter(d) == /\ At(d, "alter") /\ Same
             /\ IF T[d].cols = 2 THEN DbOpenError /\ pc' = <<"failed">>
                ELSE DbAlter(d) /\ pc' = <<"open", d, "update", Old>>
PUpdate(d)     == At(d, "update") /\ DbUpdate(d) /\ pc' = <<"open", d, "cdata", Old>> /\ Same
PCreateData(d) == At(d, "cdata") /\ DbCreateData(d) /\ pc' = <<"open", d, "copt", Old>> /\ Same
PCreateOpt(d)  == At(d, "copt") /\ DbCreateOpt(d) /\ pc' = <<"open", d, "dv", Old>> /\ Same
PDeleteVer(d)  == At(d, "dv") /\ DbDeleteVer(d) /\ pc' = <<"open", d, "iv", Old>> /\ Same
PInsertVer(d)  == /\ At(d, "iv") /\ DbInsertVer(d) /\ Same
                  /\ pc' = IF inTxn[d] THEN <<"open", d, "commit", Old>> ELSE AfterOpen(d)
POpenCommit(d) == At(d, "commit") /\ DbCommit(d) /\ pc' = AfterOpen(d) /\ Same

(* a restarted process reads everything back (the harness' observation point) *)
PObserve == /\ pc = <<"observe">> /\ pc' = <<"idle">> /\ DbReload
            /\ UNCHANGED <<calls, recs, legacy, pend, batches, faults>>

(* the workload inserts a record after the record it points to; anything not yet acknowledged may be *)
(* (re-)inserted after a restart; INSERT OR IGNORE makes the re-insert of a stored record a no-op     *)
(* PseudonymManager.add_credential / create_credential is the multi-step case: insert_token, insert_metadata,  *)
(* insert_attestation per attestation - each its own transaction, a kill possible between any two of them, so  *)
(* the file holds a PREFIX of that sequence; parent first, every prefix is closed under Ref                     *)
Insertable(i) == /\ i \notin legacy
                 /\ ParentFirst => (Ref(i) = 0 \/ Ref(i) \in T[DbOf(i)].rows)
                 /\ recs[i].kind = "blob" => i \notin T["att"].rows
(* a token may be handed in again in another FORM (add_credential with the public form of a token that is  *)
(* stored with its content, or the other way round): same primary key, other bytes                          *)
Forms(i)  == IF recs[i].kind = "token" THEN 1..MaxVers ELSE {1}
ModeOf(i) == IF recs[i].kind = "blob" THEN "plain" ELSE IF recs[i].kind = "token" THEN TokenConflict ELSE "ignore"
PCall(i) == /\ i \in Recs /\ pc = <<"idle">> /\ calls < MaxCalls /\ Insertable(i)
            /\ \E v \in Forms(i) : pc' = <<"ins", i, IF inTxn[DbOf(i)] THEN "exec" ELSE "begin", v>>
            /\ calls' = calls + 1 /\ UNCHANGED <<dbvars, recs, legacy, pend, batches, faults>>
            /\ rebuilt' = NoRebuilt

Ins(i, s) == Len(pc) = 4 /\ pc[1] = "ins" /\ pc[2] = i /\ pc[3] = s
To(s)     == [pc EXCEPT ![3] = s]
(* the implicit BEGIN of the python driver - not issued when a transaction is open already (PCall) *)
PBegin(i)  == Ins(i, "begin") /\ DbBegin(DbOf(i)) /\ Same /\ pc' = To("exec")
PExecute(i) == /\ Ins(i, "exec") /\ DbExecute(i, pc[4], ModeOf(i)) /\ Same
               /\ pc' = To(IF CommitBeforeReturn THEN "commit" ELSE "ret")
(* Database.commit(): deferred (counted) while the gate is closed *)
PCommit(i) == /\ Ins(i, "commit") /\ pc' = To("ret") /\ Same0 /\ UNCHANGED batches
              /\ IF pend[DbOf(i)] = 0 THEN DbCommit(DbOf(i)) /\ UNCHANGED pend
                 ELSE pend' = [pend EXCEPT ![DbOf(i)] = @ + 1] /\ UNCHANGED dbvars
(* the COMMIT fails (disk full, I/O error, busy): the error travels out of commit() and out of the insert   *)
(* call - the caller is told nothing was stored, the record is NOT acknowledged                              *)
PCommitFail(i, rb) == /\ Ins(i, "commit") /\ pend[DbOf(i)] = 0 /\ faults < MaxFaults
                      /\ DbFail(DbOf(i), rb) /\ faults' = faults + 1
                      /\ pc' = IF CommitErrorRaises THEN <<"idle">> ELSE To("ret")
                      /\ UNCHANGED <<calls, recs, legacy, pend, batches>> /\ rebuilt' = NoRebuilt
PReturn(i) == Ins(i, "ret") /\ DbReturn(i) /\ pc' = <<"idle">> /\ Same

(* "with database:" - __enter__ closes the commit gate; __exit__ opens it again and, when the block is  *)
(* left normally and a commit was deferred, commits.  Blocks of one database nest up to MaxDepth: the gate is   *)
(* ONE counter per Database object - an inner __enter__ must not lose what the outer block has deferred         *)
(* (max(1, n)), every __exit__ (inner ones included) opens the gate and pays the deferred commit                *)
PEnter(d) == /\ pc = <<"idle">> /\ batches < MaxBatches /\ depth[d] < MaxDepth /\ DbEnter(d)
             /\ pend' = [pend EXCEPT ![d] = IF EnterKeepsPending /\ @ > 1 THEN @ ELSE 1] /\ batches' = batches + 1
             /\ UNCHANGED pc /\ Same0
PLeaveCommit(d) == /\ pc = <<"idle">> /\ depth[d] > 0 /\ pend[d] > 1
                   /\ pend' = [pend EXCEPT ![d] = 0] /\ pc' = <<"leaving", d>>
                   /\ (IF inTxn[d] THEN DbCommit(d) ELSE UNCHANGED dbvars)
                   /\ Same0 /\ UNCHANGED batches
(* the commit that __exit__ owes FAILS: the error leaves the block instead of the normal end - what the block *)
(* held is not acknowledged (with the negative control the block is left as if the commit had been made)      *)
PLeaveCommitFail(d, rb) ==
                   /\ pc = <<"idle">> /\ depth[d] > 0 /\ pend[d] > 1 /\ inTxn[d] /\ faults < MaxFaults
                   /\ pend' = [pend EXCEPT ![d] = 0] /\ faults' = faults + 1
                   /\ pc' = IF CommitErrorRaises THEN <<"failing", d>> ELSE <<"leaving", d>>
                   /\ DbFail(d, rb)
                   /\ UNCHANGED <<calls, recs, legacy, batches>> /\ rebuilt' = NoRebuilt
PLeave(d, how) == /\ \/ pc = <<"leaving", d>> /\ how = "ok"
                     \/ pc = <<"failing", d>> /\ how = "error"
                     \/ pc = <<"idle">> /\ depth[d] > 0 /\ (how = "ok" => pend[d] <= 1)
                  /\ DbLeave(d, how) /\ pc' = <<"idle">>
                  /\ pend' = IF how = "error" /\ ~GateResetOnError THEN pend ELSE [pend EXCEPT ![d] = 0]
                  /\ Same0 /\ UNCHANGED batches

PExit  == /\ pc = <<"idle">> /\ DbExit /\ pc' = Down
          /\ pend' = [d \in DBs |-> 0] /\ Same0 /\ UNCHANGED batches
PCrash == /\ pc # Down /\ pc # <<"failed">> /\ DbCrash /\ pc' = Down
          /\ pend' = [d \in DBs |-> 0] /\ Same0 /\ UNCHANGED batches

Next == \/ PStart \/ PObserve \/ PExit \/ PCrash
        \/ \E d \in DBs : PEnter(d)
        \/ \E d \in DBs : PLeaveCommit(d)
        \/ \E d \in DBs : \E rb \in BOOLEAN : PLeaveCommitFail(d, rb)
        \/ \E i \in 1..MaxRecs : \E rb \in BOOLEAN : PCommitFail(i, rb)
        \/ \E d \in DBs : \E how \in Hows : PLeave(d, how)
        \/ \E d \in DBs : PReadVersion(d)
        \/ \E d \in DBs : POpenBegin(d)
        \/ \E d \in DBs : PAlter(d)
        \/ \E d \in DBs : PUpdate(d)
        \/ \E d \in DBs : PCreateData(d)
        \/ \E d \in DBs : PCreateOpt(d)
        \/ \E d \in DBs : PDeleteVer(d)
        \/ \E d \in DBs : PInsertVer(d)
        \/ \E d \in DBs : POpenCommit(d)
        \/ \E i \in 1..MaxRecs : PCall(i)
        \/ \E i \in 1..MaxRecs : PBegin(i)
        \/ \E i \in 1..MaxRecs : PExecute(i)
        \/ \E i \in 1..MaxRecs : PCommit(i)
        \/ \E i \in 1..MaxRecs : PReturn(i)

Spec == Init /\ [][Next]_allvars

(* ------------------------------------- properties ------------------------------------------------ *)
ImageOK(img) == /\ img.rows \subseteq Recs /\ img.data \in BOOLEAN /\ img.opt \in BOOLEAN /\ img.ver \in 0..2
                /\ img.cols \in 1..2 /\ DOMAIN img.val = img.rows /\ \A r \in img.rows : img.val[r] \in 1..MaxVers
TypeOK == /\ \A d \in DBs : ImageOK(D[d]) /\ ImageOK(T[d])
          /\ inTxn \in [DBs -> BOOLEAN]
          /\ DOMAIN ackv = acked /\ faults \in 0..MaxFaults
          /\ acked \subseteq Recs /\ executed \subseteq Recs /\ legacy \subseteq Recs
          /\ up \in BOOLEAN /\ openFailed \in BOOLEAN
          /\ \A d \in DBs : ~inTxn[d] => T[d] = D[d]
          /\ ~up => \A d \in DBs : ~inTxn[d] /\ depth[d] = 0 /\ pend[d] = 0
          /\ depth \in [DBs -> 0..MaxBatches] /\ pend \in [DBs -> 0..(MaxCalls + 1)]
          /\ held \subseteq executed /\ (~up => held = {})
          /\ \A r \in held : depth[DbOf(r)] > 0

(* every record whose insert call has returned is in the durable image - in every state, hence at   *)
(* every instant at which the process can be killed                                                  *)
AckedDurable    == \A r \in acked : r \in D[DbOf(r)].rows
(* ... and UNCHANGED: the durable row of an acknowledged record has the bytes it had when the record was   *)
(* acknowledged, whatever was inserted since (the same record in another form included)                    *)
AckedUnchanged  == \A r \in acked : (ackv[r] # 0 /\ r \in D[DbOf(r)].rows) => D[DbOf(r)].val[r] = ackv[r]
(* only whole records that were really inserted are ever visible, each in its own database          *)
NoPartialRecord == \A d \in DBs : \A r \in D[d].rows : r \in executed /\ DbOf(r) = d
(* the database opens again                                                                          *)
ReopenOk        == ~openFailed
(* the pseudonym rebuilt from the durable image is connected: no token without its parent, no        *)
(* metadata without its token, no attestation without its metadata                                   *)
PseudonymVerifies == \A r \in D["id"].rows : Ref(r) = 0 \/ Ref(r) \in D["id"].rows
(* the pseudonym the reload path rebuilds holds every acknowledged token / credential / attestation ...  *)
RebuiltHasAcked == rebuilt.seen =>
                     \A r \in acked : /\ (recs[r].kind = "token"       => r \in rebuilt.tree)
                                      /\ (recs[r].kind = "metadata"    => r \in rebuilt.creds)
                                      /\ (recs[r].kind = "attestation" => r \in rebuilt.atts)
(* ... nothing but stored records, and it verifies: every token chains back to the genesis inside the    *)
(* rebuilt tree, every credential sits on a token of the tree, every attestation on a rebuilt credential *)
RebuiltVerifies == rebuilt.seen =>
                     /\ rebuilt.tree \cup rebuilt.creds \cup rebuilt.atts \subseteq T["id"].rows
                     /\ \A r \in rebuilt.tree  : Ref(r) = 0 \/ Ref(r) \in rebuilt.tree
                     /\ \A r \in rebuilt.creds : Ref(r) \in rebuilt.tree
                     /\ \A r \in rebuilt.atts  : Ref(r) \in rebuilt.creds
=============================================================================
