----------------------------- MODULE UnloadTrace -----------------------------
(* Event logs of real overlays (harness/c11_scen.py, harness/c11_obs.py) checked against Unload.tla with the      *)
(* repaired behaviour: every logged event must be the corresponding step of the specification. A log that gets    *)
(* stuck is reported (REJECT line with the stuck position and the specification state) instead of stopping TLC,   *)
(* so that one run itemises every rejected log.                                                                   *)
EXTENDS Unload, Sequences, Json, IOUtils, TLCExt

Traces == JsonDeserialize(IOEnv.TRACE_FILE)

VARIABLES tid, l
tvars == <<vars, tid, l>>

Ev == Traces[tid].events
SetOf(seq) == {seq[i] : i \in 1..Len(seq)}

TraceInit == /\ tid \in 1..Len(Traces) /\ l = 1
             /\ InitFor(Traces[tid].wiring, Traces[tid].kind)

Step(ev) == \/ ev.e = "Handler" /\ Handler
            \/ ev.e = "Send" /\ Send
            \/ ev.e = "Register" /\ Register(ev.a, ev.o, ev.ok)
            \/ ev.e = "TaskStep" /\ TaskStep(ev.a)
            \/ ev.e = "TaskEnd" /\ TaskEnd(ev.a)
            \/ ev.e = "CacheAdd" /\ CacheAdd(ev.a, ev.ok)
            \/ ev.e = "CacheTimeout" /\ CacheTimeout(ev.a)
            \/ ev.e = "CachePop" /\ CachePop(ev.a)
            \/ ev.e = "SockTry" /\ SockTry(ev.a)
            \/ ev.e = "SockOpen" /\ SockOpen(ev.a, ev.t)
            \/ ev.e = "SockFail" /\ SockFail(ev.a)
            \/ ev.e = "SockClose" /\ SockClose(ev.a)
            \/ ev.e = "SockIn" /\ SockIn(ev.a)
            \/ ev.e = "RmSched" /\ RemoveSched(ev.a)
            \/ ev.e = "BootInit" /\ BootInit(ev.a, ev.t)
            \/ ev.e = "BootOpen" /\ BootOpen(ev.t, ev.a)
            \/ ev.e = "BootEnd" /\ BootEnd(ev.a)
            \/ ev.e = "BootClose" /\ BootClose(ev.a)
            \/ ev.e = "BootIn" /\ BootIn(ev.a)
            \/ ev.e = "U_Boot" /\ U_Boot /\ bsocks' = SetOf(ev.s)       \* bootstrap sockets open when unload() returned
            \/ ev.e = "UnloadStart" /\ UnloadStart
            \/ ev.e = "U_Tunnels" /\ U_Tunnels /\ socks' = SetOf(ev.s)   \* sockets open when unload() returned
            \/ ev.e = "U_Cache" /\ U_Cache
            \/ ev.e = "U_Listener" /\ U_Listener
            \/ ev.e = "U_Tasks" /\ U_Tasks
            \/ ev.e = "UnloadDone" /\ U_Done

TraceNext == /\ l <= Len(Ev)
             /\ Step(Ev[l])
             /\ l' = l + 1 /\ UNCHANGED tid

Stuck == l <= Len(Ev) /\ ~ENABLED TraceNext

Report == /\ Stuck
          /\ PrintT(<<"C11REJECT", [tid |-> tid, l |-> l, phase |-> phase, sub |-> sub, tasks |-> tasks,
                                    dying |-> dying, socks |-> socks, caches |-> caches, tmShut |-> tmShut,
                                    rcShut |-> rcShut, reach |-> Reach, initing |-> initing,
                                    bdying |-> bdying, held |-> held, bsocks |-> bsocks, rmPending |-> rmPending,
                                    xtasks |-> xtasks, trying |-> trying]>>)
          /\ l' = Len(Ev) + 2
          /\ UNCHANGED <<vars, tid>>

TraceSpec == TraceInit /\ [][TraceNext \/ Report]_tvars

(* used by the invariant style of acceptance (stops at the first rejected log) *)
TraceAccepted == l <= Len(Ev) => ENABLED TraceNext
=============================================================================
