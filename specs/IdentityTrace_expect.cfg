\* diagnosis only: apply the logged inputs of one session, print the state Identity.tla expects at its end
SPECIFICATION TraceSpec
CONSTANTS AlreadyChecked = TRUE PkPerAuthority = TRUE CheckSubject = TRUE CheckPermission = TRUE CommitBeforeSend = TRUE Window = 300 RespCap = 10 FitAll = 8 Compare = FALSE
INVARIANT NotDone
