--------------------------- MODULE ExitPolicyEnum ---------------------------
(***************************************************************************)
(* C06, binding E: TLC enumerates finite families of packets (given by the *)
(* bytes the classifier may look at: head, length, last byte) and computes *)
(* the expected classification and policy verdict of every member with the *)
(* operators of ExitClassifier.  The result is written as JSON; the driver *)
(* (harness/drivers/c06.py) builds every packet, runs the real DataChecker *)
(* and TunnelExitSocket.is_allowed on it and compares.                     *)
(*                                                                         *)
(* PARAM_FILE: {fam, prefix, lo, hi, ns, zs, tail, ...}  OUT_FILE: result *)
(***************************************************************************)
EXTENDS ExitClassifier, FiniteSets, Json, IOUtils, TLC

P == JsonDeserialize(IOEnv.PARAM_FILE)
Rng(s) == {s[i] : i \in DOMAIN s}
Own == P.prefix            \* prefix of the overlay the exit socket belongs to (22 bytes)

View(h, n, z) == [h |-> h, n |-> n, z |-> z]

(* bytes 0 and 1 exhaustively (chunk lo..hi of the first byte), followed by a fixed tail *)
FamB01 == {View(<<b0, b1>> \o P.tail, n, z) : b0 \in P.lo..P.hi, b1 \in 0..255, n \in Rng(P.ns), z \in Rng(P.zs)}

(* first and last byte exhaustively (bencoded dictionary) *)
FamDht == {View(<<f>>, n, z) : f \in P.lo..P.hi, z \in 0..255, n \in Rng(P.ns)}

(* tracker action words at offsets 0 and 8 *)
Words == {<<0, 0, 0, k>> : k \in 0..5} \cup
         {<<255, 255, 255, 255>>, <<0, 0, 1, 0>>, <<0, 1, 0, 0>>, <<1, 0, 0, 0>>, <<0, 0, 0, 255>>, <<128, 0, 0, 0>>,
          <<0, 0, 1, 3>>, <<1, 0, 0, 3>>}
FamWords == {View(w0 \o <<7, 7, 7, 7>> \o w8, n, z) : w0 \in Words, w8 \in Words, n \in Rng(P.words_ns), z \in Rng(P.zs)}

(* the overlay's own prefix with one byte replaced, followed by a message id *)
FamPfx == {View([Own EXCEPT ![pos] = val] \o <<m>>, n, z) :
              pos \in 1..22, val \in {0, 1, 2, 255} \cup {Own[i] : i \in 1..22},
              m \in {0, 1}, n \in Rng(P.pfx_ns), z \in Rng(P.zs)}

(* every length lo..hi, and sampled larger lengths, for a head of every class *)
Heads == {<<1, 0>>, <<65, 3>>, <<33, 1>>, <<0, 0, 0, 0>>, <<0, 0, 0, 3, 5, 5, 5, 5>>,
          <<9, 9, 9, 9, 9, 9, 9, 9, 0, 0, 0, 1>>, <<100>>, <<0, 1>>, <<0, 2>>, Own, Own \o <<1>>,
          <<0, 1, 7, 7, 7, 7, 7, 7, 0, 0, 0, 2>>, <<255>>, <<>>}
FamLen == {View(h, n, z) : h \in Heads, n \in (P.lo..P.hi) \cup Rng(P.big_ns), z \in Rng(P.zs)}

Views == CASE P.fam = "b01" -> FamB01
           [] P.fam = "dht" -> FamDht
           [] P.fam = "misc" -> FamWords \cup FamPfx \cup FamLen
           [] P.fam = "list" -> {View(P.views[i].h, P.views[i].n, P.views[i].z) : i \in DOMAIN P.views}   \* replay

B(x, w) == IF x THEN w ELSE 0
FlagSets == << {}, {"BT"}, {"IPV8"}, {"BT", "IPV8"}, {"RELAY"}, {"BT", "RELAY"}, {"IPV8", "RELAY"}, {"BT", "IPV8", "RELAY"} >>

(* bit 0 uTP, 1 tracker, 2 DHT, 3 BT, 4 IPv8, 5 belongs to the own overlay; bit 5+k: allowed under FlagSets[k] *)
(* (Allowed(fl, d, Own) = AllowedClass(fl, bt, ipv8, own) by definition: the classes are computed once)       *)
Code(d) == LET bt == CouldBeBt(d)
               ipv8 == CouldBeIpv8(d)
               own == BelongsTo(d, Own)
               A(k) == AllowedClass(FlagSets[k], bt, ipv8, own)
           IN B(CouldBeUtp(d), 1) + B(CouldBeTracker(d), 2) + B(CouldBeDht(d), 4) + B(bt, 8) + B(ipv8, 16) + B(own, 32)
              + B(A(1), 64) + B(A(2), 128) + B(A(3), 256) + B(A(4), 512)
              + B(A(5), 1024) + B(A(6), 2048) + B(A(7), 4096) + B(A(8), 8192)

Cases == {[v |-> v, c |-> Code(Mk(v))] : v \in Views}

ASSUME JsonSerialize(IOEnv.OUT_FILE, [cases |-> Cases])

VARIABLE x
Init == x = 0
Next == UNCHANGED x
Spec == Init /\ [][Next]_x
=============================================================================
