--------------------------- MODULE TunnelEndpoint ---------------------------
(* ipv8/messaging/anonymization/endpoint.py : TunnelEndpoint.send / set_anonymity /                *)
(* set_tunnel_community / send_queue, ipv8/community.py : Community.__init__ (settings.anonymize), *)
(* the part of TunnelCommunity the endpoint relies on (circuits table, find_circuits,               *)
(* create_circuit, send_data).                                                                     *)
(*                                                                                                 *)
(* Abstract layer (C07, written from the property statement, mentions no code path):               *)
(*   StepAllowed - what ANY step may put on the wire / keep in the queue:                          *)
(*     R1 nothing reaches the raw socket except the packet of a plain (non anonymised) send,       *)
(*     R2 a plain send hands exactly its packet to the raw socket, once,                           *)
(*     R3 tunnel data is only a held packet (the one being sent or a queued one), only over a      *)
(*        circuit that is ready, has the configured length and ends in an IPv8 exit,               *)
(*     R4 no packet is emitted twice,                                                              *)
(*     R5 the queue only holds held packets that were not emitted, without duplicates, bounded.    *)
(*   Everything else (dropping, order of the queue, creating circuits) is left open.               *)
(*   WHO ASKED (written from the statement, not from the switch of the endpoint): overlay          *)
(*   instances come and go on the shared endpoint (insts); an instance asks for anonymity when it  *)
(*   is constructed with anonymize = TRUE, an explicit set_anonymity(prefix, v) by the application *)
(*   speaks for every instance of that prefix, UNLOADING an instance asks for nothing.  A send is  *)
(*   "anon" when the sending instance asked (loaded or not, replaced or not), "plain" when nobody  *)
(*   asked for its prefix, and left open ("open": either treatment) when the instance itself did   *)
(*   not ask but shares its prefix with one that did.                                              *)
(* Implementation layer: one action per call of the pinned code (deterministic), the circuits      *)
(* table in dict order (send() takes circuits[0]), the deque(maxlen = QCap).                       *)
(* HOW A CIRCUIT ENDS.  A circuit stops being a ready circuit the moment it is taken down - by     *)
(* Circuit.close() on the object or by TunnelCommunity.remove_circuit(), with or without a reason  *)
(* text, with or without remove_now / destroy (CloseWays) - whatever the call looked like.  That   *)
(* is the abstract truth `closing` of a circuit; what the object REPORTS as its state is the       *)
(* implementation's `st`, and send() reads only that (StateFollowsClose demands they agree).       *)
(* remove_circuit() leaves the circuit in the table for remove_tunnel_delay seconds: `due` is the  *)
(* queue of pending removal timers, RemovalDue = the earliest one fires and the circuit leaves the *)
(* table.  Sends inside that window are the "circuit closing while the queue is non-empty" case.   *)
(* Expire = time does it: after max_time_inactive the periodic clean-up takes every ready circuit  *)
(* down the same way.                                                                              *)
EXTENDS Naturals, Sequences, FiniteSets, TLC, SequencesExt

CONSTANTS Pfx,           \* overlay prefixes that send through the endpoint
          MaxHops,       \* hop counts 1..MaxHops
          MaxCid,        \* circuit ids 1..MaxCid are handed out (bounds the model)
          QCap,          \* deque(maxlen=100)
          MaxDepth,      \* exploration bound: every behaviour of MaxDepth steps
          LeakDetached,  \* negative control: without tunnel community fall back to the raw socket
          AnyState,      \* negative control: do not look at the state of the chosen circuit
          MaxInst,       \* overlay instances 1..MaxInst (one per prefix exists at the start; bounds the model)
          Lifecycle,     \* instances are loaded / unloaded during the behaviour
          UnloadClears,  \* negative control: unloading an instance switches anonymity of its prefix off
          CandInit,      \* initial values of cand (the life-cycle configurations start without candidates)
          CloseWays,     \* the ways a circuit is taken down in this configuration (subset of AllCloseWays)
          ReasonDecides, \* negative control: the circuit only reports CLOSING when a reason text was given
          ReadyInit,     \* a behaviour starts with a ready 1-hop circuit ending in an IPv8 exit in the table
          Expiry         \* circuits are taken down by the periodic clean-up after max_time_inactive as well

VARIABLES anon,      \* [Pfx -> BOOLEAN] the per-prefix switch = TunnelEndpoint.settings (missing = FALSE)
          insts,     \* overlay instances on the endpoint in order of construction: [p, req, loaded]; req = this
                     \* instance asked for anonymity (settings.anonymize, overruled by an explicit set_anonymity)
          asked,     \* [Pfx -> BOOLEAN] somebody asked for anonymity of this prefix and nobody took it back
          attached,  \* tunnel_community is not None
          hopsCfg,   \* TunnelEndpoint.hops
          cand,      \* the tunnel community knows an IPv8 exit and a relay candidate (environment)
          circuits,  \* TunnelCommunity.circuits in insertion order: [id, goal, len, closing, flag, st]
                     \* closing = it was taken down (abstract truth), st = Circuit.state reports CLOSING
          due,       \* pending removal timers of remove_circuit() in the order they were armed: circuit ids
          ncirc,     \* circuit ids handed out so far
          queue,     \* TunnelEndpoint.send_queue : sequence of packet ids
          nsent,     \* packets handed to send() so far (packet ids 1..nsent)
          out,       \* what the LAST step put on the wire: sequence of [k, pkt, cid]
          last,      \* the last step: [kind |-> "plain"/"anon"/"open"/"fill"/"env", pkt] (kind of a send = KindOf)
          depth      \* number of steps taken (exploration bound only; multi-worker TLC has no exact level)
vars == <<anon, insts, asked, attached, hopsCfg, cand, circuits, due, ncirc, queue, nsent, out, last, depth>>

Raw(pkt)      == [k |-> "raw", pkt |-> pkt, cid |-> 0]
Tun(pkt, cid) == [k |-> "tun", pkt |-> pkt, cid |-> cid]

(* ------------------------------------------------------------------------------------------- *)
(* circuits                                                                                      *)
IsReady(c)  == ~c.closing /\ c.len >= c.goal          \* a ready circuit: complete and not taken down
StateReady(c) == ~c.st /\ c.len >= c.goal            \* implementation layer: Circuit.state = READY
(* the ways a circuit is taken down: Circuit.close() / close(reason) on the object,                *)
(* TunnelCommunity.remove_circuit(id) / (id, reason) / (id, remove_now=True) / (id, reason, destroy=1) *)
AllCloseWays == {"close", "closeR", "remove", "removeR", "removeNow", "removeD"}
HasReason(w) == w \in {"closeR", "removeR", "removeD"}
ViaRemove(w) == w \in {"remove", "removeR", "removeNow", "removeD"}
(* "a ready circuit of the configured length ending in an IPv8-capable exit" *)
RightCircuit(c, hops) == IsReady(c) /\ c.goal = hops /\ c.len >= 1 /\ c.flag

(* ------------------------------------------------------------------------------------------- *)
(* ABSTRACT LAYER                                                                                *)
Emitted(o)  == {o[i].pkt : i \in DOMAIN o}
(* kind: "plain" (send of packet pkt by an overlay without anonymity), "anon" (send of the packets *)
(* fresh by overlays that asked for anonymity), "env" (anything else; "open" is judged as either  *)
(* of the first two, see Judge); q/q2: queue before/after; o2: what                                 *)
(* the step emitted; att/hops/circs: the configuration the emissions are judged against            *)
StepAllowed(kind, pkt, fresh, q, q2, o2, att, hops, circs) ==
  LET held == Range(q) \cup fresh IN
  /\ \A i \in DOMAIN o2 : o2[i].k \in {"raw", "tun"}
  /\ \A i \in DOMAIN o2 : o2[i].k = "raw" => (kind = "plain" /\ o2[i].pkt = pkt)                   \* R1
  /\ kind = "plain" => Cardinality({i \in DOMAIN o2 : o2[i] = Raw(pkt)}) = 1                      \* R2
  /\ \A i \in DOMAIN o2 : o2[i].k = "tun" =>                                                      \* R3
        /\ o2[i].pkt \in held
        /\ att
        /\ \E j \in DOMAIN circs : circs[j].id = o2[i].cid /\ RightCircuit(circs[j], hops)
  /\ \A i, j \in DOMAIN o2 : i # j => o2[i].pkt # o2[j].pkt                                        \* R4
  /\ Range(q2) \subseteq (held \ Emitted(o2))                                                     \* R5
  /\ Len(q2) = Cardinality(Range(q2))
  /\ Len(q2) <= QCap

(* who asked: the abstract bookkeeping of requests (shared with the trace specification)          *)
KindOf(ins, ask, i) == IF ins[i].req THEN "anon" ELSE IF ~ask[ins[i].p] THEN "plain" ELSE "open"
InstsAfterLoad(ins, p, a)  == Append(ins, [p |-> p, req |-> a, loaded |-> TRUE])
AskedAfterLoad(ask, p, a)  == IF a THEN [ask EXCEPT ![p] = TRUE] ELSE ask
InstsAfterSet(ins, p, v)   == [i \in DOMAIN ins |-> IF ins[i].p = p THEN [ins[i] EXCEPT !.req = v] ELSE ins[i]]
AskedAfterSet(ask, p, v)   == [ask EXCEPT ![p] = v]
InstsAfterUnload(ins, i)   == [ins EXCEPT ![i].loaded = FALSE]          \* and nothing else: no request is withdrawn

(* a send() is judged against the configuration it started in (circuits may only be ADDED while  *)
(* it runs), every other step against the configuration it produces                               *)
Judge(kind, pkt, fresh, q, q2, o2, att, hops, circs, att2, hops2, circs2) ==
  IF kind = "plain" THEN StepAllowed("plain", pkt, {}, q, q2, o2, att, hops, circs)
  ELSE IF kind = "anon" THEN StepAllowed("anon", 0, fresh, q, q2, o2, att, hops, circs)
  ELSE IF kind = "open" THEN \/ StepAllowed("plain", pkt, {}, q, q2, o2, att, hops, circs)
                             \/ StepAllowed("anon", 0, fresh, q, q2, o2, att, hops, circs)
  ELSE StepAllowed("env", 0, {}, q, q2, o2, att2, hops2, circs2)

(* as an action over the variables; "fill" = the sends nsent+1 .. nsent' in one step of the model *)
AbsStep == Judge(IF last'.kind = "fill" THEN "anon" ELSE last'.kind, last'.pkt, (nsent + 1)..nsent',
                 queue, queue', out', attached, hopsCfg, circuits, attached', hopsCfg', circuits')

(* ------------------------------------------------------------------------------------------- *)
(* IMPLEMENTATION LAYER                                                                          *)
PfxSeq == SetToSeq(Pfx)
NewCircuit(id, goal) == [id |-> id, goal |-> goal, len |-> 0, closing |-> FALSE, flag |-> FALSE, st |-> FALSE]
Init == /\ anon \in [Pfx -> BOOLEAN]        \* Community.__init__: settings.anonymize
        /\ insts = [i \in 1..Len(PfxSeq) |-> [p |-> PfxSeq[i], req |-> anon[PfxSeq[i]], loaded |-> TRUE]]
        /\ asked = anon
        /\ attached \in BOOLEAN             \* TunnelCommunity.__init__ registers itself when the endpoint is its own
        /\ hopsCfg = IF attached THEN 1 ELSE 0
        /\ cand \in CandInit
        /\ circuits = IF ReadyInit THEN <<[NewCircuit(1, 1) EXCEPT !.len = 1, !.flag = TRUE]>> ELSE <<>>
        /\ ncirc = Len(circuits)
        /\ due = <<>> /\ queue = <<>> /\ nsent = 0 /\ out = <<>>
        /\ last = [kind |-> "env", pkt |-> 0]
        /\ depth = 0

Env == [kind |-> "env", pkt |-> 0]

Tick == depth < MaxDepth /\ depth' = depth + 1

Push(q, x) == IF Len(q) >= QCap THEN Append(Tail(q), x) ELSE Append(q, x)

(* find_circuits(exit_flags=[PEER_FLAG_EXIT_IPV8], hops=self.hops, state=None), ctype DATA:       *)
(* exit_flags of a circuit are the flags of its LAST hop so far, [] without hops                  *)
Matches(c)  == c.len >= 1 /\ c.flag /\ c.goal = hopsCfg
Matching    == SelectSeq(circuits, Matches)
(* TunnelCommunity.create_circuit(hops, exit_flags=[IPV8]) succeeds with candidates; for more than *)
(* one hop the first hops of existing circuits are reused as first hop as well                    *)
WouldCreate == cand \/ (hopsCfg > 1 /\ circuits # <<>>)

(* a send by instance snd (loaded or not: a strategy tick or a stale reference may still call it); what *)
(* the code does follows the SWITCH of the prefix, how the step is judged follows WHO ASKED (KindOf)  *)
SendPlain(snd) ==
  /\ snd \in DOMAIN insts /\ ~anon[insts[snd].p] /\ Tick
  /\ nsent' = nsent + 1
  /\ out' = <<Raw(nsent + 1)>>
  /\ last' = [kind |-> KindOf(insts, asked, snd), pkt |-> nsent + 1]
  /\ UNCHANGED <<anon, insts, asked, attached, hopsCfg, cand, circuits, due, ncirc, queue>>

SendAnon(snd) ==
  /\ snd \in DOMAIN insts /\ anon[insts[snd].p] /\ Tick
  /\ nsent' = nsent + 1
  /\ last' = [kind |-> KindOf(insts, asked, snd), pkt |-> nsent + 1]
  /\ LET k == nsent + 1 IN
     IF ~attached THEN
        /\ out' = IF LeakDetached THEN <<Raw(k)>> ELSE <<>>          \* dropped
        /\ UNCHANGED <<circuits, ncirc, queue>>
     ELSE IF Matching = <<>> THEN
        /\ IF WouldCreate
           THEN /\ ncirc < MaxCid                                   \* model bound
                /\ circuits' = Append(circuits, NewCircuit(ncirc + 1, hopsCfg))
                /\ ncirc' = ncirc + 1
           ELSE UNCHANGED <<circuits, ncirc>>
        /\ queue' = Push(queue, k) /\ out' = <<>>
     ELSE LET c == Matching[1] IN
        IF ~StateReady(c) /\ ~AnyState THEN
           /\ queue' = Push(queue, k) /\ out' = <<>>
           /\ UNCHANGED <<circuits, ncirc>>
        ELSE
           /\ out' = <<Tun(k, c.id)>> \o [i \in 1..Len(queue) |-> Tun(queue[i], c.id)]
           /\ queue' = <<>>
           /\ UNCHANGED <<circuits, ncirc>>
  /\ UNCHANGED <<anon, insts, asked, attached, hopsCfg, cand, due>>

(* QCap - 1 - Len(queue) anonymised sends in a row while nothing can be sent or created           *)
FillQueue(snd) ==
  /\ snd \in DOMAIN insts /\ anon[insts[snd].p] /\ KindOf(insts, asked, snd) # "plain" /\ attached /\ Tick
  /\ \/ Matching # <<>> /\ ~StateReady(Matching[1]) /\ ~AnyState
     \/ Matching = <<>> /\ ~WouldCreate
  /\ Len(queue) < QCap - 1
  /\ LET n == QCap - 1 - Len(queue) IN
       /\ queue' = queue \o [i \in 1..n |-> nsent + i]
       /\ nsent' = nsent + n
       /\ last' = [kind |-> "fill", pkt |-> nsent + n]
  /\ out' = <<>>
  /\ UNCHANGED <<anon, insts, asked, attached, hopsCfg, cand, circuits, due, ncirc>>

EnvStep == Tick /\ out' = <<>> /\ last' = Env /\ UNCHANGED <<nsent, queue, cand>>

ToggleAnon(p) == /\ anon' = [anon EXCEPT ![p] = ~@]                 \* set_anonymity(prefix, not current)
                 /\ insts' = InstsAfterSet(insts, p, ~anon[p])
                 /\ asked' = AskedAfterSet(asked, p, ~anon[p])
                 /\ EnvStep /\ UNCHANGED <<attached, hopsCfg, circuits, due, ncirc>>

(* Community.__init__ of another instance for prefix p on the same endpoint (a reload, a replacement *)
(* brought up before the old one goes): anonymize = TRUE registers the prefix, FALSE touches nothing *)
Load(p, a) == /\ Lifecycle /\ Len(insts) < MaxInst
              /\ insts' = InstsAfterLoad(insts, p, a)
              /\ asked' = AskedAfterLoad(asked, p, a)
              /\ anon' = IF a THEN [anon EXCEPT ![p] = TRUE] ELSE anon
              /\ EnvStep /\ UNCHANGED <<attached, hopsCfg, circuits, due, ncirc>>

(* Community.unload() of instance i: the switch of the prefix is shared state of the endpoint and  *)
(* stays as it is (other instances of the prefix, late sends of this one)                          *)
Unload(i) == /\ Lifecycle /\ i \in DOMAIN insts /\ insts[i].loaded
             /\ insts' = InstsAfterUnload(insts, i)
             /\ anon' = IF UnloadClears /\ insts[i].req THEN [anon EXCEPT ![insts[i].p] = FALSE] ELSE anon
             /\ EnvStep /\ UNCHANGED <<asked, attached, hopsCfg, circuits, due, ncirc>>

Attach(h) == /\ h \in 1..MaxHops /\ (~attached \/ h # hopsCfg)      \* set_tunnel_community(tc, h)
             /\ attached' = TRUE /\ hopsCfg' = h
             /\ EnvStep /\ UNCHANGED <<anon, insts, asked, circuits, due, ncirc>>

Detach == /\ attached                                               \* set_tunnel_community(None)
          /\ attached' = FALSE /\ hopsCfg' = 1
          /\ EnvStep /\ UNCHANGED <<anon, insts, asked, circuits, due, ncirc>>

(* the tunnel community starts a circuit on its own (do_circuits / another user) *)
AddCircuit(goal) == /\ goal \in 1..MaxHops /\ ncirc < MaxCid
                    /\ circuits' = Append(circuits, NewCircuit(ncirc + 1, goal))
                    /\ ncirc' = ncirc + 1
                    /\ EnvStep /\ UNCHANGED <<anon, insts, asked, attached, hopsCfg, due>>

(* created / extended arrives: one more hop, f = that hop advertises PEER_FLAG_EXIT_IPV8 *)
HopAdded(i, f) == /\ i \in DOMAIN circuits /\ circuits[i].len < circuits[i].goal
                  /\ circuits' = [circuits EXCEPT ![i].len = @ + 1, ![i].flag = f]
                  /\ EnvStep /\ UNCHANGED <<anon, insts, asked, attached, hopsCfg, due, ncirc>>

(* the circuit is taken down in way w: from now on it is not a ready circuit, and its state says so *)
(* whatever the call looked like; remove_circuit() also arms the timer that takes it off the table *)
CircuitClosing(i, w) == /\ i \in DOMAIN circuits /\ ~circuits[i].closing /\ w \in CloseWays
                        /\ circuits' = [circuits EXCEPT ![i].closing = TRUE,
                                                         ![i].st = (~ReasonDecides \/ HasReason(w))]
                        /\ due' = IF ViaRemove(w) THEN Append(due, circuits[i].id) ELSE due
                        /\ EnvStep /\ UNCHANGED <<anon, insts, asked, attached, hopsCfg, ncirc>>

(* the table entry disappears at once (the environment pops it); a removal timer that is still     *)
(* pending for it stays armed and finds nothing when it fires                                      *)
CircuitRemoved(i) == /\ i \in DOMAIN circuits
                     /\ circuits' = [j \in 1..(Len(circuits) - 1) |-> IF j < i THEN circuits[j] ELSE circuits[j + 1]]
                     /\ EnvStep /\ UNCHANGED <<anon, insts, asked, attached, hopsCfg, due, ncirc>>

(* remove_tunnel_delay has passed for the earliest pending removal: circuits.pop(circuit_id, None) *)
RemovalDue == /\ due # <<>>
              /\ LET Keep(c) == c.id # Head(due) IN circuits' = SelectSeq(circuits, Keep)
              /\ due' = Tail(due)
              /\ EnvStep /\ UNCHANGED <<anon, insts, asked, attached, hopsCfg, ncirc>>

(* max_time_inactive passes without incoming traffic and the periodic clean-up runs (do_circuits ->   *)
(* do_remove): the removal timers that were pending have fired on the way (remove_tunnel_delay is      *)
(* shorter), every circuit that reports READY is taken down by remove_circuit(id, "no activity")       *)
Expire == /\ Expiry
          /\ due # <<>> \/ \E i \in DOMAIN circuits : StateReady(circuits[i])
          /\ LET Stays(c) == \A k \in DOMAIN due : due[k] # c.id
                  kept     == SelectSeq(circuits, Stays)
                  idle     == SelectSeq(kept, StateReady)
              IN /\ circuits' = [i \in DOMAIN kept |-> IF StateReady(kept[i])
                                                        THEN [kept[i] EXCEPT !.closing = TRUE, !.st = TRUE] ELSE kept[i]]
                 /\ due' = [i \in DOMAIN idle |-> idle[i].id]
          /\ EnvStep /\ UNCHANGED <<anon, insts, asked, attached, hopsCfg, ncirc>>

Next == \/ \E i \in 1..MaxInst : SendAnon(i)
        \/ \E i \in 1..MaxInst : SendPlain(i)
        \/ \E i \in 1..MaxInst : FillQueue(i)
        \/ \E p \in Pfx : ToggleAnon(p)
        \/ \E p \in Pfx, a \in BOOLEAN : Load(p, a)
        \/ \E i \in 1..MaxInst : Unload(i)
        \/ \E h \in 1..MaxHops : Attach(h)
        \/ Detach
        \/ \E g \in 1..MaxHops : AddCircuit(g)
        \/ \E i \in 1..MaxCid, f \in BOOLEAN : HopAdded(i, f)
        \/ \E i \in 1..MaxCid, w \in CloseWays : CircuitClosing(i, w)
        \/ \E i \in 1..MaxCid : CircuitRemoved(i)
        \/ RemovalDue
        \/ Expire

Spec == Init /\ [][Next]_vars

(* ------------------------------------- properties --------------------------------------------- *)
TypeOK == /\ anon \in [Pfx -> BOOLEAN] /\ attached \in BOOLEAN /\ hopsCfg \in 0..MaxHops
          /\ asked \in [Pfx -> BOOLEAN] /\ Len(insts) \in Cardinality(Pfx)..MaxInst
          /\ \A i \in DOMAIN insts : insts[i].p \in Pfx /\ insts[i].req \in BOOLEAN /\ insts[i].loaded \in BOOLEAN
          /\ \A i \in DOMAIN insts : insts[i].req => asked[insts[i].p]
          /\ Len(circuits) <= MaxCid /\ ncirc <= MaxCid
          /\ \A i \in DOMAIN circuits : circuits[i].id \in 1..ncirc /\ circuits[i].len <= circuits[i].goal
          /\ \A i, j \in DOMAIN circuits : i # j => circuits[i].id # circuits[j].id
          /\ Range(queue) \subseteq 1..nsent
          /\ CloseWays \subseteq AllCloseWays
          /\ \A i \in DOMAIN circuits : circuits[i].closing \in BOOLEAN /\ circuits[i].st \in BOOLEAN
          /\ Range(due) \subseteq 1..ncirc /\ Len(due) = Cardinality(Range(due))
          \* a pending removal timer belongs to a circuit that was taken down (or is gone already)
          /\ \A k \in DOMAIN due : \A j \in DOMAIN circuits : circuits[j].id = due[k] => circuits[j].closing

(* the four named invariants of the design, over the last step (a send() never changes an existing *)
(* circuit, so the configuration after the step is the one the emissions were made under)          *)
NoRawForAnon == \A i \in DOMAIN out : out[i].k = "raw" => last.kind \in {"plain", "open"} /\ out[i].pkt = last.pkt
(* implementation layer: the switch of a prefix is on exactly while somebody asked - whatever was *)
(* loaded, replaced or unloaded in between                                                         *)
SwitchFollowsRequests == \A p \in Pfx : anon[p] = asked[p]
TunnelledOnlyOverReadyRightCircuit ==
  \A i \in DOMAIN out : out[i].k = "tun" =>
     attached /\ \E j \in DOMAIN circuits : circuits[j].id = out[i].cid /\ RightCircuit(circuits[j], hopsCfg)
QueueBounded == Len(queue) <= QCap /\ Len(queue) = Cardinality(Range(queue)) /\ Emitted(out) \cap Range(queue) = {}
(* implementation layer: what the circuit object reports is what happened to it - a circuit that   *)
(* was taken down reports CLOSING (and only such a circuit does), in whatever way it was taken down *)
StateFollowsClose == \A i \in DOMAIN circuits : circuits[i].st = circuits[i].closing
PlainUnaffected == last.kind = "plain" => out = <<Raw(last.pkt)>>

(* refinement: every step of the implementation layer is allowed by the abstract layer *)
ImplRefinesAbs == [][AbsStep]_vars
PlainLeavesQueue == [][last'.kind = "plain" => queue' = queue]_vars
(* taken down is for good: a circuit never gets ready again, and it leaves the table only whole    *)
ClosedForGood == [][\A i \in DOMAIN circuits : \A j \in DOMAIN circuits' :
                      (circuits[i].id = circuits'[j].id /\ circuits[i].closing) => ~IsReady(circuits'[j])]_vars
=============================================================================
