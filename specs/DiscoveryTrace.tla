------------------------- MODULE DiscoveryTrace -------------------------
(* Recorded executions of the real strategies (harness/drivers/g01.py, binding T): the observer O is a real       *)
(* DiscoveryCommunity with RandomWalk + EdgeWalk + RandomChurn among live DiscoveryCommunity nodes on the simulated  *)
(* network (loss, delay, nodes going down and coming back). Every strategy step of O, every datagram O handles and   *)
(* every clock tick is one event; each event must be the named action of Discovery.tla and reproduce the logged      *)
(* projection of the real objects. All invariants / action properties of Discovery.tla are evaluated on the way.     *)
EXTENDS Discovery, Json, IOUtils, TLCExt

Doc    == JsonDeserialize(IOEnv.TRACE_FILE)
Traces == Doc.traces

VARIABLES tid, l
tvars == <<vars, tid, l>>

Ev == Traces[tid].events
SetOf(x) == {x[i] : i \in DOMAIN x}          \* JSON arrays arrive as sequences

TraceInit == /\ tid \in 1..Len(Traces) /\ l = 1 /\ Init

(* the logged projection of the real objects after the event *)
Post(e) ==
  /\ now' = e.now
  /\ known' = SetOf(e.known)
  /\ introBy' = [a \in Addr |-> e.introBy[a]]
  /\ verified' = SetOf(e.verified)
  /\ lastResp' = [p \in Peers |-> e.lastResp[p]]
  /\ npings' = [p \in Peers |-> e.npings[p]]
  /\ intros' = [p \in Introducers |-> SetOf(e.intros[p])]
  /\ inited' = e.inited
  /\ lastBoot' = e.lastBoot
  /\ walkT' = [a \in Addr |-> e.walkT[a]]
  /\ lastStep' = e.lastStep
  /\ pinged' = [p \in Peers |-> e.pinged[p]]
  /\ pingT' = [p \in Peers |-> SetOf(e.pingT[p])]
  /\ nbh' = SetOf(e.nbh)
  /\ under' = [p \in Peers |-> e.under[p]]
  /\ edgeResp' = [p \in Peers |-> e.edgeResp[p]]
  /\ complete' = SetOf(e.complete)
  /\ out'.reqs = SetOf(e.out_reqs)
  /\ out'.pings = SetOf(e.out_pings)

(* a datagram that must not change anything (source is not a verified peer, unknown message ...) *)
Noop == /\ out' = Quiet("env")
        /\ UNCHANGED <<now, netVars, lastResp, npings, inited, lastBoot, walkVars, churnVars, pingT, edgeVars>>

Step(e) ==
  CASE e.a = "Tick"          -> Tick(e.d)
    [] e.a = "RecvIntroReq"  -> RecvIntroReq(e.p)
    [] e.a = "RecvSimResp"   -> RecvSimResp(e.p)
    [] e.a = "RecvIntroResp" -> RecvIntroResp(e.p, e.x)
    [] e.a = "RecvPong"      -> RecvPong(e.p, e.t)
    [] e.a = "RecvOther"     -> RecvOther(e.p)
    [] e.a = "Noop"          -> Noop
    [] e.a = "WalkStep"      -> \E a \in Addr \cup {NoAddr} : \E q \in Introducers \cup {NoAddr} : WalkStep(a, q)
    [] e.a = "ChurnStep"     -> ChurnStep(SetOf(e.w))
    [] e.a = "EdgeNbh"       -> EdgeNbh(SetOf(e.nbh), SetOf(e.out_reqs) \ Trackers)
    [] e.a = "EdgeStart"     -> \E r \in Peers : EdgeStart(r)
    [] e.a = "EdgeGrow"      -> EdgeGrow([r \in Peers |-> e.ch[r]])
    [] OTHER                 -> FALSE

TraceNext == /\ l <= Len(Ev)
             /\ Step(Ev[l]) /\ Post(Ev[l])
             /\ l' = l + 1 /\ UNCHANGED tid

TraceSpec == TraceInit /\ [][TraceNext]_tvars

(* total verdict (locating run only): a trace is rejected exactly when some logged event is not an enabled step *)
TraceAccepted == l <= Len(Ev) => ENABLED TraceNext
=============================================================================
