SPECIFICATION Spec
CONSTANTS Interval = 1 Limit = 3 PingInterval = 5 PingTimeout = 1 FindTimeout = 1 GoodWindow = 180 MaxFail = 2
          Jumps = {1, 4, 175} MaxOut = 2 WithQuery = TRUE WithPing = TRUE WithLookup = FALSE ChurnEveryTick = FALSE
          CtlCountRefused = FALSE CtlNotAdmitted = FALSE CtlNoReset = FALSE CtlNoRemove = FALSE
          MaxDepth = 8
CONSTRAINT DepthOK
INVARIANT TypeOK
INVARIANT InvWindow
INVARIANT InvRefuse
INVARIANT InvStatus
INVARIANT InvChurn
