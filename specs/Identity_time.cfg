\* one subject, the five minute window: clock steps 2 and 299 around registrations, re-registration, replays
SPECIFICATION MCSpec
CONSTANTS AlreadyChecked = TRUE PkPerAuthority = TRUE CheckSubject = TRUE CheckPermission = TRUE CommitBeforeSend = TRUE Window = 300 RespCap = 10 FitAll = 8
  Regs = {1} Senders = {1} TokIdx = {2} MdIdx = {2} AttIdx = {1} MissIdx = {1}
  Ticks = {2, 299} OwnerPeers = {} KnownVals = {} AttSend = {} RegFirst = FALSE FaultTabs = {}
  MaxReg = 2 MaxMsg = 3 MaxTick = 3 MaxOwn = 0 MaxFault = 0
INVARIANT TypeOK
INVARIANT SignsOnlyConsented
INVARIANT StoresOnlyValidlySigned
INVARIANT TokensOnlyUpToPermitted
INVARIANT TreesVerified
INVARIANT SentOnlyRecorded
