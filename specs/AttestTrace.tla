----------------------------- MODULE AttestTrace -----------------------------
(* Runs of the real BonehExactAlgorithm (harness/drivers/c18.py: fresh keys, the three exact-match *)
(* formats, seeded challenge orders and subsets) checked against Attest.tla. The hash bits are     *)
(* computed by the harness with hashlib, not by the code under test. Events:                        *)
(*   C i        challenge of attestation slot i handed to the prover                                *)
(*   R i r      the prover's create_challenge_response for slot i                                   *)
(*   P i agg    process_challenge_response for slot i; agg = the verifier's aggregate afterwards    *)
(*   S c pos s20   certainty(candidate value, aggregate): c = index into the trace's candidates'  *)
(*                    hash bits (cands), score > 0,                                                 *)
(*                    round(score * 2^20)                                                           *)
(*   H v r ok   honesty check: known value v encrypted, prover answered r, verifier's verdict ok    *)
(*   K same     keys / attestation reloaded from their serialised form; same = nothing changed      *)
EXTENDS Attest, Json, IOUtils, TLCExt

Traces == JsonDeserialize(IOEnv.TRACE_FILE)

VARIABLES tid, l
tvars == <<vars, tid, l>>

Ev == Traces[tid].events

TraceInit == /\ tid \in 1..Len(Traces) /\ l = 1
             /\ bits = Traces[tid].bits
             /\ revealed = <<>> /\ pending = {} /\ answers = <<>> /\ done = {}
             /\ agg = [k \in 0..3 |-> 0]

TraceNext == /\ l <= Len(Ev)
             /\ LET e == Ev[l] IN
                  \/ /\ e.op = "C" /\ Challenge(e.i)
                  \/ /\ e.op = "R" /\ Respond(e.i, e.r)
                  \/ /\ e.op = "P" /\ Process(e.i)
                     /\ agg' = [k \in 0..3 |-> e.agg[k + 1]]
                  \/ /\ e.op = "S" /\ ScoreOK(Traces[tid].cands[e.c], e.pos, e.s20) /\ UNCHANGED vars
                  \/ /\ e.op = "H" /\ e.r = e.v /\ e.ok /\ UNCHANGED vars
                  \/ /\ e.op = "K" /\ e.same /\ UNCHANGED vars
             /\ l' = l + 1 /\ UNCHANGED tid

TraceSpec == TraceInit /\ [][TraceNext]_tvars

(* total verdict: a trace is rejected exactly when some logged event is not an enabled spec step *)
TraceAccepted == l <= Len(Ev) => ENABLED TraceNext
=============================================================================
