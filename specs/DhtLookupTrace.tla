-------------------------- MODULE DhtLookupTrace --------------------------
(* Lookups recorded over the wire (find_values of a real client against real nodes, one of them malicious):    *)
(* `seen` = every value the client received in find-responses, `res` = what find_values returned.              *)
(* LookupOK is the statement: data is reported as signed by a key only if a signature of that key verifies on  *)
(* it, exactly one entry per signer seen, carrying the highest verified version; no unsigned data is invented. *)
EXTENDS DhtStore, Json, IOUtils

Lookups == JsonDeserialize(IOEnv.TRACE_FILE)
VARIABLE i

SignersIn(seen) == {seen[j].s : j \in 1..Len(seen)} \ {None}
LookupOK(seen, res) ==
  /\ \A j \in 1..Len(res) : res[j].s # None =>
        /\ VerifiedOf(seen, res[j].s) # {}
        /\ res[j].d \in TopData(seen, res[j].s)
  /\ \A s \in SignersIn(seen) : VerifiedOf(seen, s) # {} => Cardinality({j \in 1..Len(res) : res[j].s = s}) = 1
  /\ \A j \in 1..Len(res) : res[j].s = None => res[j].d \in UnsignedSeen(seen)

LInit == Init /\ i \in 1..Len(Lookups)
LNext == UNCHANGED <<vars, i>>
LSpec == LInit /\ [][LNext]_<<vars, i>>
AllLookupsOK == LookupOK(Lookups[i].seen, Lookups[i].res)
=============================================================================
