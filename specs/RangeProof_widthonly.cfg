SPECIFICATION Spec
CONSTANTS MaxV = 4 Below = 2 WidthOnly = TRUE
INVARIANT OutsideNeverAccepted
