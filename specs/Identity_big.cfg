\* everything together: random behaviours (-simulate) replayed on the real node
SPECIFICATION MCSpec
CONSTANTS AlreadyChecked = TRUE PkPerAuthority = TRUE CheckSubject = TRUE CheckPermission = TRUE CommitBeforeSend = TRUE Window = 300 RespCap = 10 FitAll = 8
  Regs = {1, 2, 3, 4, 5, 6, 7} Senders = {1, 2, 3} TokIdx = {1, 2, 3, 4, 5, 6, 7}
  MdIdx = {1, 2, 3, 4, 5, 6, 7, 8, 9, 10, 11, 12} AttIdx = {1, 2, 3, 4, 5, 6, 7} MissIdx = {1, 2, 3, 4, 6}
  Ticks = {2, 299} OwnerPeers = {1, 2, 3} KnownVals = {0, 1, 2} AttSend = {1, 2, 4} RegFirst = TRUE FaultTabs = {1, 2}
  MaxReg = 3 MaxMsg = 8 MaxTick = 3 MaxOwn = 4 MaxFault = 2
INVARIANT TypeOK
INVARIANT SignsOnlyConsented
INVARIANT StoresOnlyValidlySigned
INVARIANT TokensOnlyUpToPermitted
INVARIANT TreesVerified
INVARIANT SentOnlyRecorded
