SPECIFICATION Spec
CONSTANTS K = 1 SendPuncture = TRUE PunctureFirst = TRUE FollowAll = FALSE MaxId = 40 QuietCalls = TRUE
          APlaces = {"pub", "nat"} CandPlaces = {"pub", "nat", "withA"}
          MaxContactsA = 2 MaxContactsB = 2
          MinContacts = 2 MaxRebinds = 0 Clock0 = 0 Refresh = TRUE Ident16 = TRUE
          Svcs = {"M"} Phased = FALSE V6N = 1 StyleAware = TRUE SvcWalkable = TRUE
INVARIANT TypeOK
INVARIANT Reach
INVARIANT LanMeet
INVARIANT AsksPuncture
INVARIANT HandsOutCurrent
INVARIANT HoldsWorking
INVARIANT IdentFits
CHECK_DEADLOCK TRUE
